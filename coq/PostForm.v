(* PostForm.v — executable model of the HTTP-POST binding builders of gosaml2:
     build_request.go: buildAuthBodyPostFromDocument, buildLogoutBodyPostFromDocument
     build_logout_response.go: buildLogoutResponseBodyPostFromDocument
   The six html/template literals are taken from Generated.v (re-extracted from the source on every run) and
   EXECUTED here by a small interpreter of the subset of html/template they use:
     - actions of the form {{.Field}} only,
     - each inside a double-quoted attribute value of a start tag; the attribute's name decides the escaper
       html/template's contextual analysis inserts (escape.go escapeAction / attr.go attrType):
         URL attribute, action at the start of the value  -> urlfilter | urlnormalizer | attrescaper
         plain attribute                                   -> attrescaper
     - the template must end in text context.
   Anything else makes [compile] fail, so a template changed beyond this subset breaks the theorems
   (they are stated over the generated literals) instead of being mis-modelled.
   Second part: a minimal HTML reader [scan_html] used to STATE the structural theorems (P_PostForm.v).
   Oracle (input): etree's serialisation of the document. No proofs here. *)
From V Require Import Base Escape SchemaDefs ConcDefs Generated.
Local Open Scope list_scope.
Local Open Scope string_scope.   (* ++ is string append; list append is written %list *)

(* ================================================================ 1. text/template lexing: literals and {{.Field}} *)
Inductive seg := SLit (s : string) | SField (name : string).

Inductive tstate := TLit | TOpen1 | TOpen2 | TName | TClose1.

Definition snoc (s : string) (c : ascii) : string := s ++ String c EmptyString.

Definition nonempty_str (s : string) : bool := match s with EmptyString => false | _ => true end.

Definition is_ident_char (c : ascii) : bool := is_alnum c || is_ch 95 c.

(* [lit] / [name]: text read so far; [acc]: segments so far, in reverse *)
Fixpoint tparse (st : tstate) (lit name : string) (acc : list seg) (s : string) : option (list seg) :=
  match s with
  | EmptyString =>
      match st with
      | TLit => Some (rev (if nonempty_str lit then SLit lit :: acc else acc))
      | TOpen1 => Some (rev (SLit (snoc lit (byte 123)) :: acc))
      | _ => None                                     (* unclosed action *)
      end
  | String c r =>
      match st with
      | TLit => if is_ch 123 c then tparse TOpen1 lit name acc r else tparse TLit (snoc lit c) name acc r
      | TOpen1 =>
          if is_ch 123 c then tparse TOpen2 EmptyString EmptyString (if nonempty_str lit then SLit lit :: acc else acc) r
          else tparse TLit (snoc (snoc lit (byte 123)) c) name acc r
      | TOpen2 => if is_ch 46 c then tparse TName lit EmptyString acc r else None      (* only {{.Field}} *)
      | TName =>
          if is_ident_char c then tparse TName lit (snoc name c) acc r
          else if is_ch 125 c then (if nonempty_str name then tparse TClose1 lit name acc r else None)
          else None
      | TClose1 => if is_ch 125 c then tparse TLit EmptyString EmptyString (SField name :: acc) r else None
      end
  end.

Definition parse_template (t : string) : option (list seg) := tparse TLit EmptyString EmptyString [] t.

(* ================================================================ 2. html/template context analysis (subset) *)
Inductive hstate :=
| HText                                        (* stateText *)
| HTagName (name : string)                     (* after '<' *)
| HEndTag                                      (* inside </...> *)
| HTag (tag : string)                          (* stateTag: inside a start tag, between attributes *)
| HAttrName (tag name : string)                (* stateAttrName *)
| HAfterEq (tag attr : string)                 (* stateBeforeValue *)
| HDQ (tag attr : string) (at_start : bool)    (* inside a double-quoted attribute value *)
| HSQ (tag attr : string)                      (* inside a single-quoted attribute value *)
| HRaw (tag : string) (matched : nat)          (* content of <script>/<style>; [matched] bytes of "</tag" seen *)
| HBad.

Definition is_space (c : ascii) : bool := is_ch 32 c || is_ch 9 c || is_ch 10 c || is_ch 13 c || is_ch 12 c.
Definition is_letter (c : ascii) : bool := in_rng 97 122 c || in_rng 65 90 c.
Definition is_name_char (c : ascii) : bool := is_alnum c || is_ch 45 c || is_ch 95 c || is_ch 58 c.

Definition raw_text_tag (tag : string) : bool := (tag =?s "script") || (tag =?s "style").
Definition after_start_tag (tag : string) : hstate := if raw_text_tag tag then HRaw tag 0 else HText.

Definition nth_char (n : nat) (s : string) : option ascii := String.get n s.

Definition hstep (st : hstate) (c : ascii) : hstate :=
  match st with
  | HText => if is_ch 60 c then HTagName EmptyString else HText
  | HTagName name =>
      if is_letter c || (nonempty_str name && is_name_char c) then HTagName (snoc name c)
      else if is_ch 47 c then (if nonempty_str name then HTag name else HEndTag)
      else if is_ch 62 c then (if nonempty_str name then after_start_tag name else HBad)
      else if is_space c then (if nonempty_str name then HTag name else HBad)
      else HBad                                   (* comments, doctype, ... : outside the subset *)
  | HEndTag => if is_ch 62 c then HText else HEndTag
  | HTag tag =>
      if is_space c || is_ch 47 c then HTag tag
      else if is_ch 62 c then after_start_tag tag
      else if is_name_char c then HAttrName tag (String c EmptyString)
      else HBad
  | HAttrName tag name =>
      if is_name_char c then HAttrName tag (snoc name c)
      else if is_ch 61 c then HAfterEq tag name
      else if is_space c then HTag tag                   (* attribute without value *)
      else if is_ch 62 c then after_start_tag tag
      else HBad
  | HAfterEq tag attr =>
      if is_ch 34 c then HDQ tag attr true
      else if is_ch 39 c then HSQ tag attr
      else HBad                                          (* unquoted values: outside the subset *)
  | HDQ tag attr _ => if is_ch 34 c then HTag tag else HDQ tag attr false
  | HSQ tag attr => if is_ch 39 c then HTag tag else HSQ tag attr
  | HRaw tag k =>
      let close := "</" ++ tag in
      if (match nth_char k close with Some x => Ascii.eqb x c | None => false end)
      then (if Nat.eqb (S k) (String.length close) then HEndTag else HRaw tag (S k))
      else if is_ch 60 c then HRaw tag 1 else HRaw tag 0
  | HBad => HBad
  end.

Fixpoint hrun (st : hstate) (s : string) : hstate :=
  match s with EmptyString => st | String c r => hrun (hstep st c) r end.

(* attr.go attrType, restricted to names whose type is certain *)
Inductive esc_kind := EAttr | EUrlAttr.

Definition attr_escaper (attr : string) (at_start : bool) : option esc_kind :=
  if (attr =?s "action") || (attr =?s "href") || (attr =?s "src") || (attr =?s "formaction")
  then (if at_start then Some EUrlAttr else None)     (* an action in the middle of a URL gets other escapers *)
  else if (attr =?s "value") || (attr =?s "name") || (attr =?s "id") || (attr =?s "title") || (attr =?s "alt") || (attr =?s "placeholder")
  then Some EAttr
  else None.

Inductive cseg := CLit (s : string) | CAct (e : esc_kind) (field : string).

(* escape analysis: walk the segments, tracking the HTML state; actions are allowed only inside
   double-quoted attribute values; the template must end in text *)
Fixpoint analyse (st : hstate) (segs : list seg) : option (list cseg) :=
  match segs with
  | [] => match st with HText => Some [] | _ => None end
  | SLit s :: r => option_map (cons (CLit s)) (analyse (hrun st s) r)
  | SField f :: r =>
      match st with
      | HDQ tag attr at_start =>
          match attr_escaper attr at_start with
          | Some e => option_map (cons (CAct e f)) (analyse (HDQ tag attr false) r)
          | None => None
          end
      | _ => None
      end
  end.

Definition compile (t : string) : option (list cseg) :=
  match parse_template t with Some segs => analyse HText segs | None => None end.

(* ================================================================ 3. execution *)
Fixpoint lookup_field (f : string) (data : list (string * string)) : option string :=
  match data with
  | [] => None
  | (k, v) :: r => if k =?s f then Some v else lookup_field f r
  end.

Section Exec.
  Variable esc : esc_kind -> string -> string.
  Fixpoint exec_with (cs : list cseg) (data : list (string * string)) : res string :=
    match cs with
    | [] => Ok EmptyString
    | CLit s :: r => do rest <- exec_with r data; Ok (s ++ rest)
    | CAct e f :: r =>
        match lookup_field f data with
        | None => Err (EOther "can't evaluate field")
        | Some v => do rest <- exec_with r data; Ok (esc e v ++ rest)
        end
    end.
End Exec.

Definition apply_esc (e : esc_kind) (s : string) : string :=
  match e with EAttr => html_attr_escape s | EUrlAttr => html_url_attr_escape s end.

Definition render (t : string) (data : list (string * string)) : res string :=
  match compile t with
  | None => Err (EOther "template outside the modelled subset of html/template")
  | Some cs => exec_with apply_esc cs data
  end.

(* ================================================================ 4. the three builders *)
Inductive post_kind := PAuthn | PLogoutRequest | PLogoutResponse.

Record post_config := { pc_sso_url : string; pc_slo_url : string }.   (* sp.IdentityProviderSSOURL / SLOURL *)

Definition templates_of (k : post_kind) : list string :=
  match k with PAuthn => authn_post_templates | PLogoutRequest => logout_post_templates | PLogoutResponse => logout_response_post_templates end.
Definition url_fields_of (k : post_kind) : list string :=
  match k with PAuthn => authn_post_url_fields | PLogoutRequest => logout_post_url_fields | PLogoutResponse => logout_response_post_url_fields end.

(* the Go expression assigned to the URL field of the template data, as extracted by gen/ *)
Definition eval_url_field (cfg : post_config) (expr : string) : option string :=
  if expr =?s "sp.IdentityProviderSSOURL" then Some (pc_sso_url cfg)
  else if expr =?s "sp.IdentityProviderSLOURL" then Some (pc_slo_url cfg)
  else None.

Definition message_field (k : post_kind) : string :=
  match k with PLogoutResponse => "SAMLResponse" | _ => "SAMLRequest" end.

(* the configured endpoint of each flow: the form action (SSO URL for AuthnRequests, SLO URL for logout messages) *)
Definition endpoint (k : post_kind) (cfg : post_config) : string :=
  match k with PAuthn => pc_sso_url cfg | _ => pc_slo_url cfg end.

(* build*BodyPostFromDocument: [doc_bytes] = doc.WriteToBytes().
   if relayState != "" { first template, data {URL, SAML..., RelayState} } else { second template, data {URL, SAML...} }
   Which configuration field is the action, which template goes with which branch and what each field holds are stated
   HERE by hand and proved equal to the translated function bodies (GenPost.v, P_GenPost.v); the template texts are the
   generated literals.  (The action expression extracted by gen/main.go — [url_fields_of] / [eval_url_field] — is no
   longer what the model runs on; P_PostForm.url_field_ok keeps it as a cross-check of that extractor.) *)
Definition build_post_body (k : post_kind) (cfg : post_config) (relay_state doc_bytes : string) : res string :=
  let encoded := base64_encode doc_bytes in
  let idx := if relay_state =?s "" then 1%nat else 0%nat in
  match nth_error (templates_of k) idx with
  | Some t =>
      render t ([("URL", endpoint k cfg); (message_field k, encoded)] ++
                (if relay_state =?s "" then [] else [("RelayState", relay_state)]))%list
  | None => Err (EOther "no such template")
  end.

(* the same on the RESULT of doc.WriteToBytes(): a writer error is returned as it is *)
Definition build_post_body_from (k : post_kind) (cfg : post_config) (relay_state : string) (written : res string) : res string :=
  match written with Ok doc_bytes => build_post_body k cfg relay_state doc_bytes | Err e => Err e end.

(* BuildAuthBodyPost: the signed or the unsigned AuthnRequest document (the results of BuildAuthRequestDocument /
   BuildAuthRequestDocumentNoSig, documents of any representation D; [write] = Document.WriteToBytes) chosen by
   sp.SignAuthnRequests; a builder error is returned as it is *)
Definition build_auth_body_post {D : Type} (write : D -> res string) (cfg : post_config) (relay_state : string)
    (sign_requests : bool) (signed unsigned : res D) : res string :=
  match (if sign_requests then signed else unsigned) with
  | Ok d => build_post_body_from PAuthn cfg relay_state (write d)
  | Err e => Err e
  end.

(* the literal text of a compiled template, and a page as literals with the holes filled *)
Definition literals_of (cs : list cseg) : list string :=
  flat_map (fun c => match c with CLit s => [s] | CAct _ _ => [] end) cs.

Fixpoint interleave (lits fills : list string) : string :=
  match lits with
  | [] => EmptyString
  | l :: ls => match fills with
               | f :: fs => l ++ f ++ interleave ls fs
               | [] => l ++ interleave ls []
               end
  end.

(* the literal segments of the template a builder uses ([empty_relay] = the relay state is "") *)
Definition template_literals (k : post_kind) (empty_relay : bool) : list string :=
  match nth_error (templates_of k) (if empty_relay then 1%nat else 0%nat) with
  | Some t => match compile t with Some cs => literals_of cs | None => [] end
  | None => []
  end.

(* ================================================================ 5. a minimal HTML reader (specification side) *)
(* Start tags with double- or single-quoted attribute values (values are returned RAW, references not
   expanded), end tags, text, raw-text content of script/style.  Anything else: SBad. *)
Inductive token :=
| KStart (tag : string) (attrs : list (string * string))
| KEnd (tag : string)
| KText (s : string).

Inductive sstate :=
| SText (text : string)
| STagName (name : string)
| SEndName (name : string)
| SInTag (tag : string) (attrs : list (string * string))
| SAttrName (tag : string) (attrs : list (string * string)) (name : string)
| SAfterEq (tag : string) (attrs : list (string * string)) (name : string)
| SDQ (tag : string) (attrs : list (string * string)) (name value : string)
| SSQ (tag : string) (attrs : list (string * string)) (name value : string)
| SRaw (tag : string) (text : string) (pending : string) (matched : nat)
| SBad.

Definition conf := (sstate * list token)%type.     (* tokens so far, in reverse *)

Definition emit_text (t : string) (toks : list token) : list token :=
  if nonempty_str t then KText t :: toks else toks.

Definition open_tag (tag : string) (attrs : list (string * string)) (toks : list token) : conf :=
  ((if raw_text_tag tag then SRaw tag EmptyString EmptyString 0 else SText EmptyString), KStart tag attrs :: toks).

Definition sstep (cf : conf) (c : ascii) : conf :=
  let '(st, toks) := cf in
  match st with
  | SText t => if is_ch 60 c then (STagName EmptyString, emit_text t toks) else (SText (snoc t c), toks)
  | STagName name =>
      if is_letter c || (nonempty_str name && is_name_char c) then (STagName (snoc name c), toks)
      else if is_ch 47 c then (if nonempty_str name then (SInTag name [], toks) else (SEndName EmptyString, toks))
      else if is_ch 62 c then (if nonempty_str name then open_tag name [] toks else (SBad, toks))
      else if is_space c then (if nonempty_str name then (SInTag name [], toks) else (SBad, toks))
      else (SBad, toks)
  | SEndName name =>
      if is_ch 62 c then (SText EmptyString, KEnd name :: toks)
      else if is_name_char c then (SEndName (snoc name c), toks)
      else (SBad, toks)
  | SInTag tag attrs =>
      if is_space c || is_ch 47 c then (SInTag tag attrs, toks)
      else if is_ch 62 c then open_tag tag attrs toks
      else if is_name_char c then (SAttrName tag attrs (String c EmptyString), toks)
      else (SBad, toks)
  | SAttrName tag attrs name =>
      if is_name_char c then (SAttrName tag attrs (snoc name c), toks)
      else if is_ch 61 c then (SAfterEq tag attrs name, toks)
      else if is_space c then (SInTag tag (attrs ++ [(name, EmptyString)])%list, toks)
      else if is_ch 62 c then open_tag tag (attrs ++ [(name, EmptyString)])%list toks
      else (SBad, toks)
  | SAfterEq tag attrs name =>
      if is_ch 34 c then (SDQ tag attrs name EmptyString, toks)
      else if is_ch 39 c then (SSQ tag attrs name EmptyString, toks)
      else (SBad, toks)
  | SDQ tag attrs name v =>
      if is_ch 34 c then (SInTag tag (attrs ++ [(name, v)])%list, toks) else (SDQ tag attrs name (snoc v c), toks)
  | SSQ tag attrs name v =>
      if is_ch 39 c then (SInTag tag (attrs ++ [(name, v)])%list, toks) else (SSQ tag attrs name (snoc v c), toks)
  | SRaw tag t pending k =>
      let close := "</" ++ tag in
      if (match nth_char k close with Some x => Ascii.eqb x c | None => false end)
      then (if Nat.eqb (S k) (String.length close)
            then (SEndName tag, emit_text t toks)           (* the rest of the end tag up to '>' follows *)
            else (SRaw tag t (snoc pending c) (S k), toks))
      else if is_ch 60 c then (SRaw tag (t ++ pending) (String c EmptyString) 1, toks)
      else (SRaw tag (snoc (t ++ pending) c) EmptyString 0, toks)
  | SBad => (SBad, toks)
  end.

Fixpoint srun (cf : conf) (s : string) : conf :=
  match s with EmptyString => cf | String c r => srun (sstep cf c) r end.

Definition sfinish (cf : conf) : option (list token) :=
  match fst cf with
  | SText t => Some (rev (emit_text t (snd cf)))
  | _ => None
  end.

Definition scan_html (s : string) : option (list token) := sfinish (srun (SText EmptyString, []) s).

(* ---- reading a scanned page *)
Definition attr_of (name : string) (attrs : list (string * string)) : option string :=
  match find (fun kv => fst kv =?s name) attrs with Some kv => Some (snd kv) | None => None end.

Definition is_start (tag : string) (t : token) : bool :=
  match t with KStart g _ => g =?s tag | _ => false end.

(* (name, raw value) of every <input type="hidden"> *)
Definition hidden_fields (toks : list token) : list (string * string) :=
  flat_map (fun t => match t with
                     | KStart tag attrs =>
                         if (tag =?s "input") && (match attr_of "type" attrs with Some ty => ty =?s "hidden" | None => false end)
                         then match attr_of "name" attrs, attr_of "value" attrs with
                              | Some n, Some v => [(n, v)]
                              | _, _ => []
                              end
                         else []
                     | _ => []
                     end) toks.

(* raw value of the action attribute of every <form> *)
Definition form_actions (toks : list token) : list string :=
  flat_map (fun t => match t with
                     | KStart tag attrs => if tag =?s "form" then match attr_of "action" attrs with Some a => [a] | None => [] end else []
                     | _ => []
                     end) toks.

(* the page with every attribute value blanked: tags, attribute names, texts *)
Definition token_shape (t : token) : token :=
  match t with KStart tag attrs => KStart tag (map (fun kv => (fst kv, EmptyString)) attrs) | _ => t end.

(* ---- the pages the three builders are specified to produce (written from the property, not from the code) *)
Definition hidden_input (name value : string) : token :=
  KStart "input" [("type", "hidden"); ("name", name); ("value", value)].

Definition relay_input (relay : option string) : list token :=
  match relay with Some r => [hidden_input "RelayState" r] | None => [] end.

Definition post_page (k : post_kind) (action message : string) (relay : option string) : list token :=
  match k with
  | PAuthn | PLogoutRequest =>
      ([KStart "form" [("method", "POST"); ("action", action); ("id", "SAMLRequestForm")];
        hidden_input "SAMLRequest" message]
       ++ relay_input relay ++
       [KStart "input" [("id", "SAMLSubmitButton"); ("type", "submit"); ("value", "Submit")];
        KEnd "form";
        KStart "script" [];
        KText "document.getElementById('SAMLSubmitButton').style.visibility=""hidden"";document.getElementById('SAMLRequestForm').submit();";
        KEnd "script"])%list
  | PLogoutResponse =>
      ([KStart "html" [];
        KStart "form" [("method", "post"); ("action", action); ("id", "SAMLResponseForm")];
        hidden_input "SAMLResponse" message]
       ++ relay_input relay ++
       [KStart "input" [("id", "SAMLSubmitButton"); ("type", "submit"); ("value", "Continue")];
        KEnd "form";
        KStart "script" [];
        KText "document.getElementById('SAMLSubmitButton').style.visibility='hidden';";
        KEnd "script";
        KStart "script" [];
        KText "document.getElementById('SAMLResponseForm').submit();";
        KEnd "script";
        KEnd "html"])%list
  end.

(* every byte is one url_normalize keeps (a '%' must be followed by two hex digits) *)
Fixpoint url_all_kept (s : string) : bool :=
  match s with
  | EmptyString => true
  | String c r => url_norm_keep c r && url_all_kept r
  end.

(* ================================================================ observables for the correspondence check *)
Definition kind_of (s : string) : post_kind :=
  if s =?s "authn" then PAuthn else if s =?s "logout-request" then PLogoutRequest else PLogoutResponse.

Definition run_post (kind : string) (sso slo relay doc : string) : val :=
  res_val VS (build_post_body (kind_of kind) {| pc_sso_url := sso; pc_slo_url := slo |} relay doc).

Definition token_val (t : token) : val :=
  match t with
  | KStart tag attrs => VC "start" [VS tag; VL (map (fun kv => VL [VS (fst kv); VS (snd kv)]) attrs)]
  | KEnd tag => VC "end" [VS tag]
  | KText s => VC "text" [VS s]
  end.

Definition run_scan (html : string) : val := opt_val (fun l => VL (map token_val l)) (scan_html html).
