(* Prop_C02.v — property C02 at the level of gosaml2's own code: a signature that is present but does not verify
   ([dsig] answers DErr: foreign key, trusted certificate with foreign key, altered content, certificate outside its window
   at the SP clock, certificate not in the store) is fatal for all four inbound kinds and is never downgraded to 'unsigned';
   only the answer DMissing continues.  That the oracle is consulted with the CONFIGURED store and the SP's INJECTED clock is
   tied by the correspondence run (the harness computes the oracle answers with exactly that store and clock, certificates
   valid only around the fake clock).  The certificate rules themselves live in goxmldsig (see Dsig.v when present). *)
From V Require Import Base Time Xml Ns Types Profile Decode Response P_Ns P_Response.

Theorem C02_bad_response_signature_fatal : forall dsig decrypt cfg now root,
  cfg_skip_sig cfg = false -> dsig root = DErr ->
  exists e, validate_response_tree dsig decrypt cfg now root = Err e /\ e <> EMissingSignature.
Proof. exact bad_root_signature_fatal. Qed.
Print Assumptions C02_bad_response_signature_fatal.

Theorem C02_bad_or_missing_assertion_signature_fatal_in_unsigned_response : forall dsig decrypt cfg now root r,
  cfg_skip_sig cfg = false -> dsig root = DMissing ->
  validate_response_tree dsig decrypt cfg now root = Ok r ->
  exists root', decrypt_assertions decrypt root = Ok root' /\
    forall rel e ctx, subtree root' rel = Some e -> is_elem e = true -> ctx_at default_ctx root' rel = Some ctx ->
      is_assertion ctx e = true -> exists i det v, rel = [i] /\ detach ctx e = Ok det /\ dsig det = DOk v.
Proof. exact unsigned_response_needs_all_signed. Qed.
Print Assumptions C02_bad_or_missing_assertion_signature_fatal_in_unsigned_response.

Theorem C02_bad_logout_signature_fatal : forall dsig cfg root,
  cfg_skip_sig cfg = false -> dsig root = DErr ->
  (exists e, validate_logout_response_tree dsig cfg root = Err e) /\
  (exists e, validate_logout_request_tree dsig cfg root = Err e).
Proof. exact logout_bad_signature_fatal. Qed.
Print Assumptions C02_bad_logout_signature_fatal.

Theorem C02_response_honoured_as_signed_only_if_oracle_verified : forall dsig decrypt cfg now root r,
  cfg_skip_sig cfg = false -> validate_response_tree dsig decrypt cfg now root = Ok r ->
  (r_signature_validated r = true <-> exists v, dsig root = DOk v).
Proof. exact response_flag_iff. Qed.
Print Assumptions C02_response_honoured_as_signed_only_if_oracle_verified.
