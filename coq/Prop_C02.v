(* Prop_C02.v — property C02 at the level of gosaml2's own code: a signature that is present but does not verify
   ([dsig] answers DErr: foreign key, trusted certificate with foreign key, altered content, certificate outside its window
   at the SP clock, certificate not in the store) is fatal for all four inbound kinds and is never downgraded to 'unsigned';
   only the answer DMissing continues.  That the oracle is consulted with the CONFIGURED store and the SP's INJECTED clock is
   tied by the correspondence run (the harness computes the oracle answers with exactly that store and clock, certificates
   valid only around the fake clock).  The certificate rules themselves live in goxmldsig (see Dsig.v when present). *)
From Coq Require Import Permutation.
From V Require Import Base Time Escape Xml Ns Types Profile Decode Response P_Ns P_Response Dsig P_Dsig.

Theorem C02_bad_response_signature_fatal : forall dsig decrypt cfg now root,
  cfg_skip_sig cfg = false -> dsig root = DErr ->
  exists e, validate_response_tree dsig decrypt cfg now root = Err e /\ e <> EMissingSignature.
Proof. exact bad_root_signature_fatal. Qed.
Print Assumptions C02_bad_response_signature_fatal.

Theorem C02_bad_or_missing_assertion_signature_fatal_in_unsigned_response : forall dsig decrypt cfg now root r,
  cfg_skip_sig cfg = false -> dsig root = DMissing ->
  validate_response_tree dsig decrypt cfg now root = Ok r ->
  exists root', decrypt_assertions decrypt root = Ok root' /\
    forall rel e ctx, subtree root' rel = Some e -> is_elem e = true -> ctx_at default_ctx root' rel = Some ctx ->
      is_assertion ctx e = true -> exists i det v, rel = [i] /\ detach ctx e = Ok det /\ dsig det = DOk v.
Proof. exact unsigned_response_needs_all_signed. Qed.
Print Assumptions C02_bad_or_missing_assertion_signature_fatal_in_unsigned_response.

Theorem C02_bad_logout_signature_fatal : forall dsig cfg root,
  cfg_skip_sig cfg = false -> dsig root = DErr ->
  (exists e, validate_logout_response_tree dsig cfg root = Err e) /\
  (exists e, validate_logout_request_tree dsig cfg root = Err e).
Proof. exact logout_bad_signature_fatal. Qed.
Print Assumptions C02_bad_logout_signature_fatal.

Theorem C02_response_honoured_as_signed_only_if_oracle_verified : forall dsig decrypt cfg now root r,
  cfg_skip_sig cfg = false -> validate_response_tree dsig decrypt cfg now root = Ok r ->
  (r_signature_validated r = true <-> exists v, dsig root = DOk v).
Proof. exact response_flag_iff. Qed.
Print Assumptions C02_response_honoured_as_signed_only_if_oracle_verified.

(* ---- the certificate rules themselves, on the model of the pinned signature library (Dsig.v; correspondence-checked
   against the real goxmldsig by the DSIG stream that this check runs as well) ---- *)

(* complete characterisation: a signature's certificate is honoured iff it is designated (KeyInfo certificate that parses and
   is byte-equal to a store member; or, with no KeyInfo, the single member of a one-certificate store) and the SP clock lies
   inside that certificate's validity period *)
Theorem C02_certificate_rule : forall parse_cert store now sg c,
  verify_certificate parse_cert store now sg = Ok c <->
  exists u, Designates parse_cert store sg u /\ pick_root store u = Some c /\ InWindow c now.
Proof. exact verify_cert_iff. Qed.
Print Assumptions C02_certificate_rule.

Theorem C02_honoured_certificate_is_store_member_in_window : forall parse_cert store now sg c,
  verify_certificate parse_cert store now sg = Ok c ->
  In c store /\ InWindow c now /\
  ((exists data rest der u, sg_keyinfo sg = Some (data :: rest) /\ base64_decode (strip_space data) = Some der /\
                            parse_cert der = Some u /\ c_der c = c_der u)
   \/ (sg_keyinfo sg = None /\ store = [c])).
Proof. exact verify_cert_ok. Qed.
Print Assumptions C02_honoured_certificate_is_store_member_in_window.

(* any member of a multi-certificate store is honoured equally: the order of the store is irrelevant *)
Theorem C02_store_order_irrelevant : forall parse_cert store store' now sg,
  Permutation store store' -> Coherent store ->
  verify_certificate parse_cert store now sg = verify_certificate parse_cert store' now sg.
Proof. exact store_order_irrelevant. Qed.
Print Assumptions C02_store_order_irrelevant.

Theorem C02_validity_window_is_inclusive : forall c,
  ibefore (c_not_after c) (c_not_before c) = false ->
  cert_valid_at c (c_not_before c) = true /\ cert_valid_at c (c_not_after c) = true /\
  (forall now, ibefore now (c_not_before c) = true -> cert_valid_at c now = false) /\
  (forall now, iafter now (c_not_after c) = true -> cert_valid_at c now = false).
Proof. exact window_is_inclusive. Qed.
Print Assumptions C02_validity_window_is_inclusive.

(* 'missing signature' comes from the signature search only: no certificate, signature, digest or parse failure is ever
   reported as missing (and thereby downgraded to 'unsigned') *)
Theorem C02_only_absence_is_reported_as_missing : forall canon digest sig_ok parse_cert reparse store now root,
  dsig_validate canon digest sig_ok parse_cert reparse store now root = DMissing <->
  exists root' lim', find_run root = Ok (root', lim', None).
Proof. exact missing_signature_iff. Qed.
Print Assumptions C02_only_absence_is_reported_as_missing.

(* source tie: a signature that is present but does not verify makes the TRANSLATED ValidateEncodedResponse of this run
   return an error other than "missing signature" *)
From V Require Import Generated Keys GenPrelude GenPreludeD GenPreludeT GenFuncs GenTree P_GenTree P_GenTreeProps.
Theorem C02_source_bad_response_signature_fatal : forall parse dsig decrypt cfg now enc raw root,
  cfg_skip_sig cfg = false -> b64_decode enc = Ok raw -> parse raw = Ok root -> dsig root = DErr ->
  exists e, G_ValidateEncodedResponse parse dsig (decrypt_assertions decrypt) cfg now enc = PVal (Err e) /\ e <> EMissingSignature.
Proof. exact source_bad_root_signature_fatal. Qed.
Print Assumptions C02_source_bad_response_signature_fatal.

(* source tie for the first mechanism of C02: decode_response.go validationContext / validateElementSignature, re-translated
   from /repo on every run (GenVctx.v).  Every signature check goes to goxmldsig with a context built for that call from the
   configured certificate store and the SP's injected clock; a cached context, another clock or a filtered / wrapped store
   changes the translated term. *)
From V Require Import GenPreludeV GenVctx P_GenVctx.
Theorem C02_source_validation_context_is_configured_store_and_clock : forall validate sp now el,
  G_validationContext sp now = PVal (Some {| vc_store := vs_store sp; vc_id_attribute := "ID"; vc_clock := vs_clock sp |}) /\
  G_validateElementSignature validate sp now el
  = PVal (res_some (validate {| vc_store := vs_store sp; vc_id_attribute := "ID"; vc_clock := vs_clock sp |} el)).
Proof. intros validate sp now el. exact (conj (G_validationContext_is_model sp now) (G_validateElementSignature_is_model validate sp now el)). Qed.
Print Assumptions C02_source_validation_context_is_configured_store_and_clock.
