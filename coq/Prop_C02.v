(* Prop_C02.v — property C02 at the level of gosaml2's own code: a signature that is present but does not verify
   ([dsig] answers DErr: foreign key, trusted certificate with foreign key, altered content, certificate outside its window
   at the SP clock, certificate not in the store) is fatal for all four inbound kinds and is never downgraded to 'unsigned';
   only the answer DMissing continues — and, since the repair 541e863 (finding F12), only for a root that envelops no
   ds:Signature child: goxmldsig answers "missing" whenever no signature REFERENCES the element's ID, also for a present
   signature whose reference no longer matches (ID attribute edited or shadowed by a prefixed namesake), and that answer is
   now an error (C02_enveloped_signature_never_downgraded; the code before the repair:
   C02_present_signature_downgraded_before_repair_refuted).  That the oracle is consulted with the CONFIGURED store and the SP's INJECTED clock is
   tied by the correspondence run (the harness computes the oracle answers with exactly that store and clock, certificates
   valid only around the fake clock).  The certificate rules themselves live in goxmldsig (see Dsig.v when present). *)
From Coq Require Import Permutation.
From V Require Import Base Time Escape Xml Ns Types Profile Decode Response P_Ns P_Response Dsig P_Dsig P_Downgrade.

Theorem C02_bad_response_signature_fatal : forall dsig decrypt cfg now root,
  cfg_skip_sig cfg = false -> dsig root = DErr ->
  exists e, validate_response_tree dsig decrypt cfg now root = Err e /\ e <> EMissingSignature.
Proof. exact bad_root_signature_fatal. Qed.
Print Assumptions C02_bad_response_signature_fatal.

Theorem C02_bad_or_missing_assertion_signature_fatal_in_unsigned_response : forall dsig decrypt cfg now root r,
  cfg_skip_sig cfg = false -> dsig root = DMissing ->
  validate_response_tree dsig decrypt cfg now root = Ok r ->
  exists root', decrypt_assertions decrypt root = Ok root' /\
    forall rel e ctx, subtree root' rel = Some e -> is_elem e = true -> ctx_at default_ctx root' rel = Some ctx ->
      is_assertion ctx e = true -> exists i det v, rel = [i] /\ detach ctx e = Ok det /\ dsig det = DOk v.
Proof. exact unsigned_response_needs_all_signed. Qed.
Print Assumptions C02_bad_or_missing_assertion_signature_fatal_in_unsigned_response.

Theorem C02_bad_logout_signature_fatal : forall dsig cfg root,
  cfg_skip_sig cfg = false -> dsig root = DErr ->
  (exists e, validate_logout_response_tree dsig cfg root = Err e) /\
  (exists e, validate_logout_request_tree dsig cfg root = Err e).
Proof. exact logout_bad_signature_fatal. Qed.
Print Assumptions C02_bad_logout_signature_fatal.

Theorem C02_response_honoured_as_signed_only_if_oracle_verified : forall dsig decrypt cfg now root r,
  cfg_skip_sig cfg = false -> validate_response_tree dsig decrypt cfg now root = Ok r ->
  (r_signature_validated r = true <-> exists v, dsig root = DOk v).
Proof. exact response_flag_iff. Qed.
Print Assumptions C02_response_honoured_as_signed_only_if_oracle_verified.

(* ---- a present signature is never handled as a missing one (repair 541e863) ----
   [EnvelopedSignature root]: a direct child element of root resolves to {http://www.w3.org/2000/09/xmldsig#}Signature.
   For every tree, every oracle behaviour, signature checking on: such a root is accepted only along the signed path (oracle
   verified the root, result decoded from the verified tree, flag set) — for the Response and both logout messages — and
   without a verifying root signature the result is an error other than "missing signature"; in particular the oracle answer
   DMissing is turned into an error by validateElementSignature. *)
Theorem C02_enveloped_signature_never_downgraded : forall dsig decrypt cfg now root,
  cfg_skip_sig cfg = false -> EnvelopedSignature root ->
  (forall r, validate_response_tree dsig decrypt cfg now root = Ok r ->
     SignedPath dsig decrypt cfg now root r /\ r_signature_validated r = true /\ ~ UnsignedPath dsig decrypt cfg now root r) /\
  (forall r, validate_logout_response_tree dsig cfg root = Ok r ->
     exists v r0, dsig root = DOk v /\ unmarshal_logout_response v = Ok r0 /\ r = lr_with_flag r0 true) /\
  (forall r, validate_logout_request_tree dsig cfg root = Ok r ->
     exists v r0, dsig root = DOk v /\ unmarshal_logout_request v = Ok r0 /\ r = lq_with_flag r0 true) /\
  ((forall v, dsig root <> DOk v) ->
     (exists e, validate_response_tree dsig decrypt cfg now root = Err e /\ e <> EMissingSignature) /\
     (exists e, validate_logout_response_tree dsig cfg root = Err e /\ e <> EMissingSignature) /\
     (exists e, validate_logout_request_tree dsig cfg root = Err e /\ e <> EMissingSignature)) /\
  (dsig root = DMissing -> validate_element_signature dsig root = DErr).
Proof. exact enveloped_signature_never_downgraded. Qed.
Print Assumptions C02_enveloped_signature_never_downgraded.

(* the contrapositive, on the accepted result: a message accepted without the root flag (the unsigned path) has a root that
   goxmldsig found no signature for AND that envelops no ds:Signature child *)
Theorem C02_unsigned_path_means_no_enveloped_signature : forall dsig decrypt cfg now root,
  cfg_skip_sig cfg = false ->
  (forall r, validate_response_tree dsig decrypt cfg now root = Ok r -> r_signature_validated r = false ->
     UnsignedPath dsig decrypt cfg now root r /\ dsig root = DMissing /\ ~ EnvelopedSignature root) /\
  (forall r, validate_logout_response_tree dsig cfg root = Ok r -> lr_signature_validated r = false ->
     dsig root = DMissing /\ ~ EnvelopedSignature root) /\
  (forall r, validate_logout_request_tree dsig cfg root = Ok r -> lq_signature_validated r = false ->
     dsig root = DMissing /\ ~ EnvelopedSignature root).
Proof. exact unsigned_path_means_no_enveloped_signature. Qed.
Print Assumptions C02_unsigned_path_means_no_enveloped_signature.

(* what NSFindOneChild's three outcomes mean (Ns.v model: default context + the root's declarations + the child's own, one
   visit of the 1000 budget per child element, first match): "none" only if there is none; a child answered is one; with such
   a child the lookup answers a child or fails — it never reports absence *)
Theorem C02_enveloped_signature_lookup_sound : forall root,
  (ns_find_one_child root ds_ns ds_signature_tag = Ok None -> ~ EnvelopedSignature root) /\
  (forall s, ns_find_one_child root ds_ns ds_signature_tag = Ok (Some s) -> EnvelopedSignature root) /\
  (EnvelopedSignature root ->
     (exists s, ns_find_one_child root ds_ns ds_signature_tag = Ok (Some s)) \/
     (exists e, ns_find_one_child root ds_ns ds_signature_tag = Err e)).
Proof.
  intros root. exact (conj (ns_find_one_child_none root ds_ns ds_signature_tag)
                       (conj (ns_find_one_child_some root ds_ns ds_signature_tag) (ns_find_one_child_has_child root ds_ns ds_signature_tag))).
Qed.
Print Assumptions C02_enveloped_signature_lookup_sound.

(* the code BEFORE the repair (Response.*_original: validateElementSignature = goxmldsig's answer as it came): a Response,
   a LogoutResponse and a LogoutRequest whose root envelops the IdP's Signature, with the root ID edited so that goxmldsig
   answers "missing", are accepted as unsigned — the Response with an attacker-chosen InResponseTo and its individually
   vouched assertion; the repaired model rejects all three.  Witness by computation. *)
Theorem C02_present_signature_downgraded_before_repair_refuted :
  exists dsig decrypt cfg now root lroot qroot,
    cfg_skip_sig cfg = false /\
    EnvelopedSignature root /\ dsig root = DMissing /\
    (exists r, validate_response_tree_original dsig decrypt cfg now root = Ok r /\
               r_signature_validated r = false /\ r_in_response_to r = "_request-of-the-attacker"%string /\
               r_assertions r <> [] /\ Forall (Vouched dsig root) (r_assertions r)) /\
    EnvelopedSignature lroot /\ dsig lroot = DMissing /\
    (exists r, validate_logout_response_tree_original dsig cfg lroot = Ok r /\ lr_signature_validated r = false) /\
    EnvelopedSignature qroot /\ dsig qroot = DMissing /\
    (exists r, validate_logout_request_tree_original dsig cfg qroot = Ok r /\ lq_signature_validated r = false) /\
    (exists e, validate_response_tree dsig decrypt cfg now root = Err e) /\
    (exists e, validate_logout_response_tree dsig cfg lroot = Err e) /\
    (exists e, validate_logout_request_tree dsig cfg qroot = Err e).
Proof. exact present_signature_downgraded_before_repair. Qed.
Print Assumptions C02_present_signature_downgraded_before_repair_refuted.

(* non-vacuity: an enveloping root the oracle verifies is accepted (signed path); a root without a Signature child whose
   assertion is individually signed is accepted (unsigned path) *)
Theorem C02_enveloped_signature_examples :
  (EnvelopedSignature w_response /\
   exists r, validate_response_tree w_dsig_ok w_decrypt w_cfg w_now w_response = Ok r /\ r_signature_validated r = true) /\
  (exists r, validate_response_tree w_dsig w_decrypt w_cfg w_now w_response_unsigned = Ok r /\ r_signature_validated r = false /\
             r_assertions r <> []).
Proof. exact (conj enveloped_and_verified_is_accepted unsigned_response_with_signed_assertion_is_accepted). Qed.
Print Assumptions C02_enveloped_signature_examples.

(* ---- the certificate rules themselves, on the model of the pinned signature library (Dsig.v; correspondence-checked
   against the real goxmldsig by the DSIG stream that this check runs as well) ---- *)

(* complete characterisation: a signature's certificate is honoured iff it is designated (KeyInfo certificate that parses and
   is byte-equal to a store member; or, with no KeyInfo, the single member of a one-certificate store) and the SP clock lies
   inside that certificate's validity period *)
Theorem C02_certificate_rule : forall parse_cert store now sg c,
  verify_certificate parse_cert store now sg = Ok c <->
  exists u, Designates parse_cert store sg u /\ pick_root store u = Some c /\ InWindow c now.
Proof. exact verify_cert_iff. Qed.
Print Assumptions C02_certificate_rule.

Theorem C02_honoured_certificate_is_store_member_in_window : forall parse_cert store now sg c,
  verify_certificate parse_cert store now sg = Ok c ->
  In c store /\ InWindow c now /\
  ((exists data rest der u, sg_keyinfo sg = Some (data :: rest) /\ base64_decode (strip_space data) = Some der /\
                            parse_cert der = Some u /\ c_der c = c_der u)
   \/ (sg_keyinfo sg = None /\ store = [c])).
Proof. exact verify_cert_ok. Qed.
Print Assumptions C02_honoured_certificate_is_store_member_in_window.

(* any member of a multi-certificate store is honoured equally: the order of the store is irrelevant *)
Theorem C02_store_order_irrelevant : forall parse_cert store store' now sg,
  Permutation store store' -> Coherent store ->
  verify_certificate parse_cert store now sg = verify_certificate parse_cert store' now sg.
Proof. exact store_order_irrelevant. Qed.
Print Assumptions C02_store_order_irrelevant.

Theorem C02_validity_window_is_inclusive : forall c,
  ibefore (c_not_after c) (c_not_before c) = false ->
  cert_valid_at c (c_not_before c) = true /\ cert_valid_at c (c_not_after c) = true /\
  (forall now, ibefore now (c_not_before c) = true -> cert_valid_at c now = false) /\
  (forall now, iafter now (c_not_after c) = true -> cert_valid_at c now = false).
Proof. exact window_is_inclusive. Qed.
Print Assumptions C02_validity_window_is_inclusive.

(* 'missing signature' comes from the signature search only: no certificate, signature, digest or parse failure is ever
   reported as missing (and thereby downgraded to 'unsigned') *)
Theorem C02_only_absence_is_reported_as_missing : forall canon digest sig_ok parse_cert reparse store now root,
  dsig_validate canon digest sig_ok parse_cert reparse store now root = DMissing <->
  exists root' lim', find_run root = Ok (root', lim', None).
Proof. exact missing_signature_iff. Qed.
Print Assumptions C02_only_absence_is_reported_as_missing.

(* with the canonicalisers AND the re-parse of the goxmldsig model instantiated (Canon.canon_model; DsigReader.reparse_model =
   XmlTok.read_tree, the tokenizer and etree's tree building as functions) what an honoured signature hands on is no longer
   "the parse of the verified bytes" by an oracle: for the usual layout (first signature met, transforms = enveloped-signature
   + one canonicalisation c0) it is the PREPARED form of the root minus exactly that Signature element, normalised -- a
   function of the presented tree; only digest, signature check and certificate parser remain oracles.  Premise
   [c14n_wf] (on the prepared tree p, or simply on the presented root): see Prop_DSIG.DSIG_canonical_bytes_reparse_to_prepared_tree. *)
From V Require Import P_DsigExact Canon XmlTok P_XmlTok DsigReader P_DsigReader.
Theorem C02_honoured_tree_is_prepared_signed_tree : forall digest sig_ok parse_cert store now root v,
  dsig_validate_reader digest sig_ok parse_cert store now root = DOk v ->
  exists root' f sb sin sinfo2 r,
    find_signature root = Ok (root', f) /\
    canon_model (fs_si_alg f) (fs_si_detached f) = Some sb /\ reparse_model sb = Some sin /\
    unmarshal_signed_info sin = Ok sinfo2 /\ r = last (si_refs sinfo2) zero_ref /\
    (FirstSignature root (fs_path f) ->
     forall t1 t2 c0, ref_transforms r = [t1; t2] -> tr_alg t1 = alg_enveloped -> c14n_of t2 = Some c0 ->
       exists body p want,
         remove_at_path root (fs_path f) = Some body /\ canon_prep c0 body = Some p /\
         base64_decode (ref_digest_value r) = Some want /\ digest (ref_digest_alg r) (c14n_write p) = Some want /\
         read_tree (c14n_write p) = Ok v /\
         (c14n_wf_elem p = true -> v = normalise p) /\
         (c14n_wf root = true -> v = normalise p)).
Proof. exact dsig_sound_reader_first_signature. Qed.
Print Assumptions C02_honoured_tree_is_prepared_signed_tree.

(* source tie: a signature that is present but does not verify makes the TRANSLATED ValidateEncodedResponse of this run
   return an error other than "missing signature" *)
From V Require Import Generated Keys GenPrelude GenPreludeD GenPreludeT GenFuncs GenTree P_GenTree P_GenTreeProps.
Theorem C02_source_bad_response_signature_fatal : forall parse dsig decrypt cfg now enc raw root,
  cfg_skip_sig cfg = false -> b64_decode enc = Ok raw -> parse raw = Ok root -> dsig root = DErr ->
  exists e, G_ValidateEncodedResponse parse dsig (decrypt_assertions decrypt) cfg now enc = PVal (Err e) /\ e <> EMissingSignature.
Proof. exact source_bad_root_signature_fatal. Qed.
Print Assumptions C02_source_bad_response_signature_fatal.

(* source tie for the first mechanism of C02: decode_response.go validationContext / validateElementSignature, re-translated
   from /repo on every run (GenVctx.v).  Every signature check goes to goxmldsig with a context built for that call from the
   configured certificate store and the SP's injected clock; a cached context, another clock or a filtered / wrapped store
   changes the translated term. *)
From V Require Import GenPreludeV GenVctx P_GenVctx.
Theorem C02_source_validation_context_is_configured_store_and_clock : forall validate sp now el,
  G_validationContext sp now = PVal (Some {| vc_store := vs_store sp; vc_id_attribute := "ID"; vc_clock := vs_clock sp |}) /\
  G_validateElementSignature validate sp now el
  = PVal (ves_res (validate {| vc_store := vs_store sp; vc_id_attribute := "ID"; vc_clock := vs_clock sp |}) el).
Proof. intros validate sp now el. exact (conj (G_validationContext_is_model sp now) (G_validateElementSignature_is_model validate sp now el)). Qed.
Print Assumptions C02_source_validation_context_is_configured_store_and_clock.

(* the translated body of the repaired validateElementSignature, seen through the three outcomes its callers distinguish
   (verified element / dsig.ErrMissingSignature / any other error), IS Response.validate_element_signature over goxmldsig's
   Validate under the configured context — the function the tree-level model and the translated entry points use for the
   Response root and both logout roots; it never panics *)
Theorem C02_source_validateElementSignature_is_the_model : forall validate sp now el,
  exists r, G_validateElementSignature validate sp now el = PVal r /\
    dsig_of_res r
    = validate_element_signature
        (fun x => dsig_of_res (res_some (validate {| vc_store := vs_store sp; vc_id_attribute := "ID"; vc_clock := vs_clock sp |} x))) el.
Proof. exact source_validateElementSignature_is_tree_model. Qed.
Print Assumptions C02_source_validateElementSignature_is_the_model.

(* the repaired clause for the translated entry points of this run *)
Theorem C02_source_enveloped_signature_never_downgraded : forall parse dsig decrypt cfg now enc raw root,
  cfg_skip_sig cfg = false -> b64_decode enc = Ok raw -> parse raw = Ok root -> EnvelopedSignature root ->
  (forall r, G_ValidateEncodedResponse parse dsig (decrypt_assertions decrypt) cfg now enc = PVal (Ok (Some r)) ->
     r_signature_validated r = true /\ exists v, dsig root = DOk v) /\
  (forall r, G_ValidateEncodedLogoutResponsePOST parse dsig cfg now enc = PVal (Ok (Some r)) ->
     lr_signature_validated r = true /\ exists v, dsig root = DOk v) /\
  (forall r, G_ValidateEncodedLogoutRequestPOST parse dsig cfg now enc = PVal (Ok (Some r)) ->
     lq_signature_validated r = true /\ exists v, dsig root = DOk v).
Proof. exact source_enveloped_signature_never_downgraded. Qed.
Print Assumptions C02_source_enveloped_signature_never_downgraded.
