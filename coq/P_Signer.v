(* P_Signer.v -- C13: the signer's own computation of DigestValue / SignatureValue (Signer.v) composed with the verifier
   (Dsig.v) and the canonicaliser model (Canon.v).
     (a) the canonical SignedInfo bytes the SIGNER signs are the bytes the VERIFIER recomputes from the signed element;
     (b) P_SignVerify.signed_message_verifies instantiated with canon := canon_model and the crypto pair := signer_crypto;
     (c) the bytes hashed into DigestValue are the canonical form of the whole message element. *)
From Coq Require Import Lia.
From V Require Import Base Time Escape EscapeProofs Xml Ns SchemaDefs Schema Types ConcDefs Generated Decode Response P_Ns.
From V Require Import Build P_Build P_Sign Dsig P_Dsig Canon P_Canon Signer P_SignVerify.
Local Open Scope nat_scope.
Local Open Scope string_scope.
Local Open Scope list_scope.

(* ================================================================ 1. Signer.v's vocabulary = P_SignVerify's *)
Lemma id_alg_eq id : id_alg id = alg_of_id id.
Proof. reflexivity. Qed.
Lemma canon_alg_of_eq c : canon_alg_of c = signer_alg c.
Proof. destruct c; reflexivity. Qed.

(* the SignedInfo the signer detaches IS the first child of the Signature element it finally returns *)
Lemma signature_element_shell sm cid h ref dv sv certs :
  signature_element sm cid h ref dv sv certs =
  Elem "ds" "Signature" [dsdecl]
    [ signed_info_element sm cid h ref dv;
      Elem "ds" "SignatureValue" [] (text_kids sv);
      Elem "ds" "KeyInfo" [] [Elem "ds" "X509Data" [] (map cert_node certs)] ].
Proof. reflexivity. Qed.

Lemma signed_info_element_tree sm cid h ref dv :
  dv <> "" ->
  signed_info_element sm cid h ref dv = si_el sm cid (if ref =?s "" then "" else "#" ++ ref) (digest_id h) dv.
Proof.
  intros Hd. apply str_eqb_neq in Hd.
  change (signed_info_element sm cid h ref dv) with
    (Elem "ds" "SignedInfo" []
       [ Elem "ds" "CanonicalizationMethod" (dsA cid) [];
         Elem "ds" "SignatureMethod" (dsA sm) [];
         Elem "ds" "Reference" [A "" "URI" (if ref =?s "" then "" else "#" ++ ref)]
           [ Elem "ds" "Transforms" [] [Elem "ds" "Transform" (dsA enveloped_signature_id) []; Elem "ds" "Transform" (dsA cid) []];
             Elem "ds" "DigestMethod" (dsA (digest_id h)) [];
             Elem "ds" "DigestValue" [] (text_kids dv) ] ]).
  unfold si_el, text_kids. rewrite Hd. reflexivity.
Qed.

(* the signer pushes xmlns:ds ONCE, the verifier twice: the detached SignedInfo is the same element *)
Lemma signer_detached_eq L el' sm cid uri hid dv :
  In L decl_sets -> sub_context default_ctx (attrs_of el') = Ok (ctx_of L) ->
  let si := si_el sm cid uri hid dv in
  signer_detached el' (signature_shell si) si = Ok (si_det L si).
Proof.
  intros HL HS si. unfold signer_detached. rewrite HS. cbn [bind].
  subst si. cbn [decl_sets In] in HL. destruct HL as [<-|[<-|[<-|[]]]]; vm_compute; reflexivity.
Qed.

(* the canonicaliser the VERIFIER selects for SignedInfo from CanonicalizationMethod (REC-xml-c14n is prepared as c14n 1.1),
   and what the model of the SIGNER's canonicaliser object prepares: the same tree *)
Definition si_alg_of_id (id : string) : canon_alg :=
  if id =?s alg_exc then CExc "" false else if id =?s alg_exc_wc then CExc "" true
  else if (id =?s alg_c11) || (id =?s alg_rec) then C11 false else C11 true.

Lemma si_prepared_fst L sm cid uri hid dv : In L decl_sets -> In cid c14n_ids ->
  fst (si_prepared cid (si_det L (si_el sm cid uri hid dv))) = si_alg_of_id cid.
Proof.
  intros HL HC. cbn [decl_sets c14n_ids In] in HL, HC.
  destruct HL as [<-|[<-|[<-|[]]]]; destruct HC as [<-|[<-|[<-|[<-|[<-|[<-|[]]]]]]]; vm_compute; reflexivity.
Qed.

Lemma signer_prep_is_verifier_prep L sm cid uri hid dv : In L decl_sets -> In cid c14n_ids ->
  let det := si_det L (si_el sm cid uri hid dv) in
  canon_prep (id_alg cid) det = Some (snd (si_prepared cid det)) /\
  canon_prep (si_alg_of_id cid) det = Some (snd (si_prepared cid det)).
Proof.
  intros HL HC. cbn [decl_sets c14n_ids In] in HL, HC.
  destruct HL as [<-|[<-|[<-|[]]]]; destruct HC as [<-|[<-|[<-|[<-|[<-|[<-|[]]]]]]]; split; vm_compute; reflexivity.
Qed.

(* the prepared SignedInfo of the signer, as a tree (its canonical bytes are c14n_write of it) *)
Definition signer_si_prepared (cx : sign_ctx) (sm : string) (el' : node) (dv : string) : res node :=
  let si := signer_signed_info cx sm el' dv in
  do det <- signer_detached el' (signature_shell si) si;
  match canon_prep (canon_alg_of (cx_canon cx)) det with
  | Some p => Ok p
  | None => Err (EOther "canonicalize")
  end.

Lemma signer_si_bytes_prepared cx sm el' dv p :
  signer_si_prepared cx sm el' dv = Ok p -> signer_si_bytes canon_model cx sm el' dv = Ok (c14n_write p).
Proof.
  unfold signer_si_prepared, signer_si_bytes.
  destruct (signer_detached el' _ _) as [det|e]; [|discriminate]. cbn [bind]. unfold canon_model.
  destruct (canon_prep (canon_alg_of (cx_canon cx)) det) as [q|]; [|discriminate].
  intros H. inversion H. reflexivity.
Qed.

(* ================================================================ 2. (a) the signer signs what the verifier checks *)
(* getCanonicalSignedInfo on the tree findSignature left behind: [canon] of the detached SignedInfo under the algorithm
   findSignature selected (the computation inside P_SignVerify.signed_message_outcome, for any canonicaliser oracle) *)
Lemma canonical_signed_info_found canon sp t a c0 rest L sm cid uri hid dv sv c64 :
  In L decl_sets -> In cid c14n_ids -> sub_context default_ctx a = Ok (ctx_of L) ->
  let si := si_el sm cid uri hid dv in
  let root' := Elem sp t a (c0 :: sig_tree (snd (si_prepared cid (si_det L si))) sv c64 :: rest) in
  canonical_signed_info canon root' (found L sm cid uri hid dv sv c64) =
  match canon (fst (si_prepared cid (si_det L si))) (si_det L si) with
  | Some b => Ok b
  | None => Err (EOther "si-bytes")
  end.
Proof.
  intros HL HC HS si root'. pose proof HS as HS2. apply sub_ctx_ok in HS2.
  unfold canonical_signed_info, root'. cbn [found fs_path fs_si_alg fs_si_detached parent_ctx node_at kids_of attrs_of nth_error].
  rewrite HS2. cbn [bind].
  destruct (find_replaced_signed_info L sm cid uri hid dv sv c64 HL HC) as (x & lim & Hf). fold si in Hf.
  rewrite Hf. cbn [bind fst]. fold si.
  destruct (canon (fst (si_prepared cid (si_det L si))) (si_det L si)); reflexivity.
Qed.

Theorem signer_signs_what_verifier_checks cx el dv sv el' sg signed sm der :
  construct_signature cx el (Ok (dv, sv)) = ORet (Ok (el', sg)) ->
  sign_placement el' sg = ORet (Ok signed) ->
  signable el' = true ->
  In (canon_id (cx_canon cx)) c14n_ids -> canon_alg_of (cx_canon cx) = id_alg (canon_id (cx_canon cx)) ->
  ctx_certs (cx_keys cx) = Ok [der] -> der <> "" -> dv <> "" -> sv <> "" ->
  declared_method cx = Some sm ->
  exists root' f sib,
    find_signature signed = Ok (root', f) /\
    signer_si_bytes canon_model cx sm el' dv = Ok sib /\
    canonical_signed_info canon_model root' f = Ok sib.
Proof.
  intros HCS HPL HSG HCin HCalg HCerts Hder Hdv0 Hsv0 Hsm.
  destruct (signed_shape _ _ _ _ _ _ _ _ _ HCS HPL HSG HCerts Hder Hdv0 Hsv0 Hsm) as (sp & t & a & c0 & rest & -> & -> & ->).
  destruct (signable_inv _ _ _ _ _ HSG) as (L & ns & He0 & HL & HS & ELk & Hns & HQ & Hcnt & Hid & Hcrf).
  set (cid := canon_id (cx_canon cx)) in *. set (h := cx_hash cx) in *.
  set (ref := select_attr_value "ID" a) in *.
  set (uri := if ref =?s "" then "" else ("#" ++ ref)%string) in *.
  set (hid := digest_id h) in *.
  set (si := si_el sm cid uri hid dv) in *.
  set (c64 := base64_encode der) in *.
  pose proof (find_signature_signed sp t a c0 rest L ns sm cid hid dv sv c64 He0 HL HS ELk Hns HQ Hcnt Hid Hcrf HCin) as HFS.
  cbv zeta in HFS. fold ref in HFS. fold uri in HFS. fold si in HFS.
  destruct (signer_prep_is_verifier_prep L sm cid uri hid dv HL HCin) as [Hsp Hvp]. cbv zeta in Hsp, Hvp. fold si in Hsp, Hvp.
  eexists. eexists. exists (c14n_write (snd (si_prepared cid (si_det L si)))).
  split; [exact HFS|]. split.
  - apply signer_si_bytes_prepared. unfold signer_si_prepared, signer_signed_info. cbn [attrs_of]. fold cid h ref.
    rewrite (signed_info_element_tree sm cid h ref dv Hdv0). fold uri hid si.
    pose proof (signer_detached_eq L (Elem sp t a (c0 :: rest)) sm cid uri hid dv HL HS) as HD. cbv zeta in HD. fold si in HD.
    rewrite HD. cbn [bind]. rewrite HCalg. fold cid. rewrite Hsp. reflexivity.
  - pose proof (canonical_signed_info_found canon_model sp t a c0 rest L sm cid uri hid dv sv c64 HL HCin HS) as HC.
    cbv zeta in HC. fold si in HC. rewrite HC.
    unfold si. rewrite (si_prepared_fst L sm cid uri hid dv HL HCin). fold si.
    unfold canon_model. rewrite Hvp. reflexivity.
Qed.

(* ================================================================ 3. (b) sign with the modelled signer, then verify *)
(* what a successful ConstructSignature with the modelled crypto pair computed on the way *)
Lemma construct_signature_modelled_inv canon digest sign cx el el' sg :
  construct_signature_modelled canon digest sign cx el = ORet (Ok (el', sg)) ->
  exists dv sv,
    canon_apply (cx_canon cx) el = Ok el' /\ signer_crypto canon digest sign cx el' = Ok (dv, sv) /\
    construct_signature cx el (Ok (dv, sv)) = ORet (Ok (el', sg)).
Proof.
  unfold construct_signature_modelled, crypto_for, construct_signature.
  destruct (ctx_pk (cx_keys cx)) as [pk|]; [|discriminate].
  destruct (id_by_method pk (cx_hash cx) signature_method_ids) as [sm|]; [|discriminate].
  destruct (canon_apply (cx_canon cx) el) as [el''|e]; [|discriminate].
  destruct (signer_crypto canon digest sign cx el'') as [[dv sv]|e] eqn:ESC; [|discriminate].
  destruct (ctx_certs (cx_keys cx)) as [certs|e]; [|discriminate].
  intros H. inversion H; subst. exists dv, sv. repeat split; auto.
Qed.

Lemma signer_crypto_inv canon digest sign cx el' dv sv :
  signer_crypto canon digest sign cx el' = Ok (dv, sv) ->
  exists sm bytes d sib key,
    declared_method cx = Some sm /\
    signer_digest_input canon cx el' = Some bytes /\ digest (digest_id (cx_hash cx)) bytes = Some d /\
    dv = base64_encode d /\
    signer_si_bytes canon cx sm el' dv = Ok sib /\
    ctx_signing_key (cx_keys cx) = Some (Ok key) /\
    sv = base64_encode (sign key sm sib).
Proof.
  unfold signer_crypto, ctx_method, ctx_digest, declared_method, signer_digest_input.
  destruct (ctx_pk (cx_keys cx)) as [pk|]; [|discriminate].
  destruct (id_by_method pk (cx_hash cx) signature_method_ids) as [sm|] eqn:EM; [|discriminate]. cbn [bind].
  destruct (canon (canon_alg_of (cx_canon cx)) el') as [bytes|] eqn:EB; [|discriminate].
  destruct (digest (digest_id (cx_hash cx)) bytes) as [d|] eqn:ED; [|discriminate]. cbn [bind].
  destruct (signer_si_bytes canon cx sm el' (base64_encode d)) as [sib|e] eqn:ES; [|discriminate]. cbn [bind].
  destruct (ctx_signing_key (cx_keys cx)) as [[key|e]|] eqn:EK; try discriminate.
  intros H. inversion H; subst. exists sm, bytes, d, sib, key. repeat split; auto.
Qed.

Section SignVerifyModelled.
  Variable digest : string -> string -> option string.
  Variable sig_ok : cert -> string -> string -> string -> bool.
  Variable parse_cert : string -> option cert.
  Variable reparse : string -> option node.
  Variable sign : string -> string -> string -> string.
  Variable key : string.
  Variable der : string.
  Variable crt : cert.

  (* LAWS OF THE ORACLES: those of P_SignVerify.SignVerify *)
  Hypothesis H_sign_verifies : forall m b, sig_ok crt m b (sign key m b) = true.
  Hypothesis H_sign_nonempty : forall m b, sign key m b <> "".
  Hypothesis H_parse_cert : parse_cert der = Some crt.
  Hypothesis H_digest_len : forall alg b d, digest alg b = Some d -> 20 <= String.length d.

  (* The message signed by the MODELLED signer is accepted by the verifier, canonicalisers being Canon.canon_model on both
     sides.  [sm bytes d p] only NAME what the signer computed (the SignatureMethod identifier, the digest input, the digest,
     the prepared SignedInfo); the two premises about [reparse] are the parser round trip at exactly those two byte strings. *)
  Theorem sign_verify_accepts_modelled cx el el' sg signed now sm bytes d p v :
    construct_signature_modelled canon_model digest sign cx el = ORet (Ok (el', sg)) ->
    sign_placement el' sg = ORet (Ok signed) ->
    signable el' = true ->
    In (canon_id (cx_canon cx)) c14n_ids -> canon_alg_of (cx_canon cx) = id_alg (canon_id (cx_canon cx)) ->
    ctx_certs (cx_keys cx) = Ok [der] -> der <> "" ->
    ctx_signing_key (cx_keys cx) = Some (Ok key) ->
    cert_valid_at crt now = true ->
    declared_method cx = Some sm ->
    signer_digest_input canon_model cx el' = Some bytes -> digest (digest_id (cx_hash cx)) bytes = Some d ->
    signer_si_prepared cx sm el' (base64_encode d) = Ok p ->
    reparse (c14n_write p) = Some p ->
    reparse bytes = Some v ->
    dsig_validate canon_model digest sig_ok parse_cert reparse [crt] now signed = DOk v.
  Proof.
    intros HCM HPL HSG HCin HCalg HCerts Hder Hkey Hvalid Hsm Hbytes Hdig Hprep Hrsi Hrep.
    destruct (construct_signature_modelled_inv _ _ _ _ _ _ _ HCM) as (dv & sv & HCA & HSC & HCS).
    destruct (signer_crypto_inv _ _ _ _ _ _ _ HSC) as (sm' & bytes' & d' & sib & key' & Hsm' & Hb' & Hd' & Hdv & Hsib & Hkey' & Hsv).
    rewrite Hsm in Hsm'. inversion Hsm'; subst sm'. clear Hsm'.
    rewrite Hbytes in Hb'. inversion Hb'; subst bytes'. clear Hb'.
    rewrite Hdig in Hd'. inversion Hd'; subst d'. clear Hd'.
    rewrite Hkey in Hkey'. inversion Hkey'; subst key'. clear Hkey'.
    rewrite Hdv in Hsib. rewrite (signer_si_bytes_prepared _ _ _ _ _ Hprep) in Hsib. inversion Hsib; subst sib. clear Hsib.
    assert (Hd0 : d <> "") by (intros ->; pose proof (H_digest_len _ _ _ Hdig) as Hl; cbn in Hl; lia).
    assert (Hdv0 : dv <> "") by (subst dv; apply base64_nonempty; exact Hd0).
    assert (Hsv0 : sv <> "") by (subst sv; apply base64_nonempty; apply H_sign_nonempty).
    (* the verifier's detached / prepared SignedInfo is the signer's *)
    destruct (signed_info_query_defined cx el dv sv el' sg signed sm der HCS HPL HSG HCin HCerts Hder Hdv0 Hsv0 Hsm) as (det & sa & p' & Hdet & _ & Hsp).
    destruct (signed_shape _ _ _ _ _ _ _ _ _ HCS HPL HSG HCerts Hder Hdv0 Hsv0 Hsm) as (sp & t & a & c0 & rest & Eel & Esg & Esigned).
    destruct (signable_inv _ _ _ _ _ (eq_ind _ (fun x => signable x = true) HSG _ Eel)) as (L & ns & He0 & HL & HS & _).
    set (cid := canon_id (cx_canon cx)) in *.
    set (uri := if select_attr_value "ID" a =?s "" then "" else ("#" ++ select_attr_value "ID" a)%string) in *.
    set (hid := digest_id (cx_hash cx)) in *.
    set (si := si_el sm cid uri hid dv) in *.
    (* det = si_det L si *)
    assert (Hdet' : det = si_det L si).
    { rewrite Eel, Esg in Hdet. unfold si_detached in Hdet. cbn [attrs_of kids_of sig_tree] in Hdet.
      pose proof HS as HS2. apply sub_ctx_ok in HS2. rewrite HS2 in Hdet. cbn [bind] in Hdet.
      change (sub_ctx (ctx_of L) [dsdecl]) with (Ok (("ds", ds_ns) :: ctx_of L) : res nsctx) in Hdet. cbn [bind] in Hdet.
      change (sub_ctx (("ds", ds_ns) :: ctx_of L) [dsdecl]) with (Ok (("ds", ds_ns) :: ("ds", ds_ns) :: ctx_of L) : res nsctx) in Hdet. cbn [bind] in Hdet.
      fold si in Hdet. unfold si in Hdet. rewrite (si_det_ok L sm cid uri hid dv HL) in Hdet. inversion Hdet. reflexivity. }
    subst det.
    assert (Hprepd : si_prepared cid (si_det L si) = (sa, p')) by (unfold si_prepared; rewrite Hsp; reflexivity).
    destruct (signer_prep_is_verifier_prep L sm cid uri hid dv HL HCin) as [Hsgp Hvp]. cbv zeta in Hsgp, Hvp. fold si in Hsgp, Hvp.
    rewrite Hprepd in Hsgp, Hvp. cbn [snd] in Hsgp, Hvp.
    pose proof (si_prepared_fst L sm cid uri hid dv HL HCin) as Hfst. fold si in Hfst. rewrite Hprepd in Hfst. cbn [fst] in Hfst.
    (* p = p' *)
    assert (Hpp : p = p').
    { unfold signer_si_prepared, signer_signed_info in Hprep. rewrite Eel in Hprep. cbn [attrs_of] in Hprep.
      rewrite <- Hdv in Hprep. fold cid in Hprep.
      rewrite (signed_info_element_tree sm cid (cx_hash cx) (select_attr_value "ID" a) dv Hdv0) in Hprep. fold uri hid si in Hprep.
      pose proof (signer_detached_eq L (Elem sp t a (c0 :: rest)) sm cid uri hid dv HL HS) as HD. cbv zeta in HD. fold si in HD.
      rewrite HD in Hprep. cbn [bind] in Hprep. rewrite HCalg in Hprep. fold cid in Hprep. rewrite Hsgp in Hprep.
      inversion Hprep. reflexivity. }
    subst p'.
    apply (signed_message_verifies canon_model digest sig_ok parse_cert reparse sign key der crt
             H_sign_verifies H_sign_nonempty H_parse_cert H_digest_len
             cx el dv sv el' sg signed now sm bytes d (si_det L si) sa p (c14n_write p) v); auto.
    rewrite Hfst. unfold canon_model. rewrite Hvp. reflexivity.
  Qed.
End SignVerifyModelled.

(* Sign{AuthnRequest,LogoutRequest,LogoutResponse} with the modelled signer: the same steps, so (a) and (b) apply to its result *)
Lemma sign_element_modelled_inv canon digest sign cfg k el signed :
  sign_element_modelled canon digest sign cfg k el = ORet (Ok signed) ->
  exists cx el' sg,
    signing_context cfg k = ORet (Ok cx) /\
    construct_signature_modelled canon digest sign cx el = ORet (Ok (el', sg)) /\
    sign_placement el' sg = ORet (Ok signed).
Proof.
  unfold sign_element_modelled. destruct (signing_context cfg k) as [[cx|e]|w] eqn:ESC.
  - intros H. destruct (sign_element_inv _ _ _ _ _ H) as (cx' & el' & sg & Hcx & HCS & HPL).
    rewrite ESC in Hcx. inversion Hcx; subst cx'. exists cx, el', sg. auto.
  - unfold sign_element. rewrite ESC. discriminate.
  - unfold sign_element. rewrite ESC. discriminate.
Qed.

(* ================================================================ 4. non-vacuity and the excluded case *)
Module SignerExample.
  Import SVExample.
  (* the oracles of SVExample (a 20+-byte digest, tagged signatures verifying under "DER" only for key "K"), but the
     canonicaliser is Canon.canon_model on both sides and DigestValue / SignatureValue are computed by Signer.signer_crypto *)
  Record mrun := { m_cx : sign_ctx; m_el : node; m_el' : node; m_sg : node; m_signed : node; m_sm : string; m_bytes : string;
                   m_d : string; m_p : node }.
  Definition mhonest (c : option Build.canon) (id : string) : option mrun :=
    let cfg := cfg0 c in let cx := cx_of cfg in
    let el := build_authn_request cfg id t_now in
    match construct_signature_modelled canon_model t_digest t_sign cx el, declared_method cx with
    | ORet (Ok (el', sg)), Some sm =>
        match sign_placement el' sg, signer_digest_input canon_model cx el' with
        | ORet (Ok signed), Some bytes =>
            match t_digest (digest_id (cx_hash cx)) bytes with
            | Some d =>
                match signer_si_prepared cx sm el' (base64_encode d) with
                | Ok p => Some {| m_cx := cx; m_el := el; m_el' := el'; m_sg := sg; m_signed := signed; m_sm := sm; m_bytes := bytes;
                                  m_d := d; m_p := p |}
                | Err _ => None
                end
            | None => None
            end
        | _, _ => None
        end
    | _, _ => None
    end.
  (* the recipient's parser at the two byte strings that matter *)
  Definition m_reparse (r : mrun) (b : string) : option node :=
    if b =?s c14n_write (m_p r) then Some (m_p r) else if b =?s m_bytes r then Some (m_el' r) else None.
  Definition mverify (r : mrun) : dsig_result :=
    dsig_validate canon_model t_digest t_sig_ok t_parse_cert (m_reparse r) [t_cert] t_now (m_signed r).
  Definition moutcome (c : option Build.canon) (id : string) : option (dsig_result * node) :=
    match mhonest c id with Some r => Some (mverify r, m_el' r) | None => None end.

  (* a built AuthnRequest signed by the MODELLED signer verifies: by evaluation *)
  Example modelled_accepted_c11 : is_ok_of (moutcome None "id-1") = true.
  Proof. vm_compute. reflexivity. Qed.
  Example modelled_accepted_exc : is_ok_of (moutcome (Some (CanonExc [] false)) "id-1") = true.
  Proof. vm_compute. reflexivity. Qed.
  Example modelled_accepted_exc_comments : is_ok_of (moutcome (Some (CanonExc [] true)) "id-1") = true.
  Proof. vm_compute. reflexivity. Qed.
  Example modelled_accepted_rec : is_ok_of (moutcome (Some (CanonOther alg_rec)) "id-1") = true.
  Proof. vm_compute. reflexivity. Qed.
  Example modelled_accepted_rec_with_comments : is_ok_of (moutcome (Some (CanonOther alg_rec_wc)) "id-1") = true.
  Proof. vm_compute. reflexivity. Qed.
  (* Sign* with the modelled signer returns that very tree *)
  Example modelled_sign_element :
    match mhonest None "id-1" with
    | Some r => sign_element_modelled canon_model t_digest t_sign (cfg0 None) keys0 (m_el r) = ORet (Ok (m_signed r))
    | None => False
    end.
  Proof. vm_compute. reflexivity. Qed.

  (* (a) by evaluation: the bytes the signer signs = the bytes getCanonicalSignedInfo recomputes *)
  Definition same_signed_info_bytes (r : mrun) : bool :=
    match find_signature (m_signed r), signer_si_bytes canon_model (m_cx r) (m_sm r) (m_el' r) (base64_encode (m_d r)) with
    | Ok (root', f), Ok sib =>
        match canonical_signed_info canon_model root' f with Ok sib' => sib =?s sib' | Err _ => false end
    | _, _ => false
    end.
  Definition same_si (c : option Build.canon) : bool :=
    match mhonest c "id-1" with Some r => same_signed_info_bytes r | None => false end.
  Example signer_signs_what_verifier_checks_examples :
    same_si None = true /\ same_si (Some (CanonExc [] false)) = true /\ same_si (Some (CanonExc [] true)) = true /\
    same_si (Some (CanonOther alg_rec)) = true /\ same_si (Some (CanonOther alg_c11_wc)) = true /\
    same_si (Some (CanonExc ["xs"] false)) = true.      (* a prefix list naming no declared prefix changes nothing *)
  Proof. repeat split; vm_compute; reflexivity. Qed.

  (* the question "canonical bytes of el'" for an EXCLUSIVE canonicaliser: the library returns the serialisation of the element
     it has just rewritten; the model asks canon_model about the rewritten element, i.e. transforms it once more.  On the built
     messages the second transformation changes nothing (checked here on the example, on every case of the correspondence
     run by comparing with the bytes the library hashed) *)
  Definition rewrite_idempotent (c : option Build.canon) : bool :=
    match mhonest c "id-1" with
    | Some r => match canon_prep (canon_alg_of (cx_canon (m_cx r))) (m_el' r) with
                | Some p => node_eqb p (m_el' r) && (m_bytes r =?s c14n_write (m_el' r))
                | None => false
                end
    | None => false
    end.
  Example exclusive_rewrite_is_idempotent_examples :
    rewrite_idempotent (Some (CanonExc [] false)) = true /\ rewrite_idempotent (Some (CanonExc [] true)) = true /\
    rewrite_idempotent (Some (CanonExc ["saml"] false)) = true /\ rewrite_idempotent (Some (CanonExc ["saml"; "xs"] true)) = true.
  Proof. repeat split; vm_compute; reflexivity. Qed.

  (* ... and BY THE THEOREM: the laws hold of these oracles and every premise of sign_verify_accepts_modelled holds of this
     run, so its hypotheses are jointly satisfiable *)
  Definition dummy_mrun : mrun :=
    {| m_cx := dummy_cx; m_el := Text ""; m_el' := Text ""; m_sg := Text ""; m_signed := Text ""; m_sm := ""; m_bytes := ""; m_d := "";
       m_p := Text "" |}.
  Definition m1 : mrun := Eval vm_compute in match mhonest None "id-1" with Some r => r | None => dummy_mrun end.
  Example modelled_accepted_by_theorem : mhonest None "id-1" = Some m1 /\ mverify m1 = DOk (m_el' m1).
  Proof.
    split; [vm_compute; reflexivity|].
    unfold mverify.
    apply (sign_verify_accepts_modelled t_digest t_sig_ok t_parse_cert (m_reparse m1) t_sign "K" "DER" t_cert
             t_sign_verifies t_sign_nonempty eq_refl t_digest_len
             (m_cx m1) (m_el m1) (m_el' m1) (m_sg m1) (m_signed m1) t_now (m_sm m1) (m_bytes m1) (m_d m1) (m_p m1) (m_el' m1));
      try (vm_compute; reflexivity); try (vm_compute; tauto); try discriminate.
  Qed.

  (* ---- excluded by "canon_alg_of c = id_alg (canon_id c)": an exclusive canonicaliser built with a prefix list naming a
     prefix that is in scope (known finding exc-prefix-list).  The signer canonicalises the detached SignedInfo WITH the
     list (xmlns:saml stays on ds:SignedInfo), the verifier without: other bytes, and the message is rejected ---- *)
  Definition m_pl : mrun := Eval vm_compute in match mhonest (Some (CanonExc ["saml"] false)) "id-1" with Some r => r | None => dummy_mrun end.
  Lemma exc_prefix_list_signs_other_bytes_refuted :
    exists r root' f sib_signer sib_verifier,
      mhonest (Some (CanonExc ["saml"] false)) "id-1" = Some r /\
      signable (m_el' r) = true /\ In (canon_id (cx_canon (m_cx r))) c14n_ids /\
      canon_alg_of (cx_canon (m_cx r)) <> id_alg (canon_id (cx_canon (m_cx r))) /\
      find_signature (m_signed r) = Ok (root', f) /\
      signer_si_bytes canon_model (m_cx r) (m_sm r) (m_el' r) (base64_encode (m_d r)) = Ok sib_signer /\
      canonical_signed_info canon_model root' f = Ok sib_verifier /\
      (sib_signer =?s sib_verifier) = false /\
      mverify r = DErr.
  Proof.
    exists m_pl. eexists. eexists. eexists. eexists.
    split; [vm_compute; reflexivity|]. split; [vm_compute; reflexivity|]. split; [vm_compute; tauto|].
    split; [vm_compute; discriminate|]. split; [vm_compute; reflexivity|]. split; [vm_compute; reflexivity|].
    split; [vm_compute; reflexivity|]. split; vm_compute; reflexivity.
  Qed.
End SignerExample.

(* ================================================================ 5. (c) DigestValue covers the whole message element *)
(* what DigestValue is: base64 of the digest of the canonicaliser's bytes for the WHOLE element handed to the signer (as the
   canonicaliser left it); the Signature element is inserted afterwards (sign_placement) and is what the enveloped-signature
   transform removes again on the verifier's side (P_SignVerify.verifier_reads_declared: transform yields exactly el') *)
Theorem digest_value_covers_whole_element canon digest sign cx el' dv sv :
  signer_crypto canon digest sign cx el' = Ok (dv, sv) ->
  exists bytes d,
    signer_digest_input canon cx el' = Some bytes /\ canon (canon_alg_of (cx_canon cx)) el' = Some bytes /\
    digest (digest_id (cx_hash cx)) bytes = Some d /\ dv = base64_encode d.
Proof.
  intros H. destruct (signer_crypto_inv _ _ _ _ _ _ _ H) as (sm & bytes & d & sib & key & _ & Hb & Hd & Hdv & _).
  exists bytes, d. auto.
Qed.

(* the trivial direction: elements with different canonical bytes have different digest inputs *)
Lemma digest_input_differs canon cx e1 e2 b1 b2 :
  signer_digest_input canon cx e1 = Some b1 -> signer_digest_input canon cx e2 = Some b2 ->
  canon (canon_alg_of (cx_canon cx)) e1 <> canon (canon_alg_of (cx_canon cx)) e2 -> b1 <> b2.
Proof. unfold signer_digest_input. intros H1 H2 HN E. apply HN. rewrite H1, H2, E. reflexivity. Qed.

(* ---- the canonical serialisation determines every attribute value and every character-data token ---- *)
Lemma append_inv_head (a b c : string) : (a ++ b = a ++ c)%string -> b = c.
Proof. induction a as [|x a IH]; cbn; intros H; [exact H | inversion H; auto]. Qed.

Lemma split_at_byte n c a a' b b' : is_ch n c = true -> no_byte n a = true -> no_byte n a' = true ->
  (a ++ String c b = a' ++ String c b')%string -> a = a' /\ b = b'.
Proof.
  intros Hc. revert a'. unfold no_byte. induction a as [|x a IH]; intros [|y a'] Ha Ha' H; cbn [String.append str_all] in *.
  - inversion H; auto.
  - inversion H; subst. rewrite Hc in Ha'. discriminate.
  - inversion H; subst. rewrite Hc in Ha. discriminate.
  - inversion H; subst. apply andb_prop in Ha as [_ Ha]. apply andb_prop in Ha' as [_ Ha'].
    destruct (IH a' Ha Ha' H2) as [-> ->]. auto.
Qed.

Fixpoint same_attr_names (a b : list attr) : Prop :=
  match a, b with
  | [], [] => True
  | x :: r, y :: r' => at_space x = at_space y /\ at_key x = at_key y /\ same_attr_names r r'
  | _, _ => False
  end.
Fixpoint same_shape (n m : node) {struct n} : Prop :=
  match n, m with
  | Elem s t a k, Elem s' t' a' k' =>
      s = s' /\ t = t' /\ same_attr_names a a' /\
      (fix go (l l' : list node) : Prop :=
         match l, l' with [], [] => True | x :: r, y :: r' => same_shape x y /\ go r r' | _, _ => False end) k k'
  | Text _, Text _ => True
  | Comment s, Comment s' => s = s'
  | ProcInst t i, ProcInst t' i' => t = t' /\ i = i'
  | Directive s, Directive s' => s = s'
  | _, _ => False
  end.
Fixpoint same_shape_kids (l l' : list node) : Prop :=
  match l, l' with [], [] => True | x :: r, y :: r' => same_shape x y /\ same_shape_kids r r' | _, _ => False end.
Lemma same_shape_elem s t a k s' t' a' k' :
  same_shape (Elem s t a k) (Elem s' t' a' k') <-> (s = s' /\ t = t' /\ same_attr_names a a' /\ same_shape_kids k k').
Proof.
  cbn [same_shape].
  assert (E : forall l l', (fix go (l l' : list node) : Prop :=
         match l, l' with [], [] => True | x :: r, y :: r' => same_shape x y /\ go r r' | _, _ => False end) l l' = same_shape_kids l l').
  { induction l as [|x r IH]; intros [|y r']; cbn [same_shape_kids]; try reflexivity; try (rewrite IH; reflexivity). }
  rewrite E. tauto.
Qed.

Definition is_text (n : node) : bool := match n with Text _ => true | _ => false end.
Fixpoint no_adjacent_text (l : list node) : bool :=
  match l with
  | x :: ((y :: _) as r) => negb (is_text x && is_text y) && no_adjacent_text r
  | _ => true
  end.
(* every attribute value and character-data token is XML text; no two character-data tokens are adjacent *)
Fixpoint plain_values (n : node) : bool :=
  match n with
  | Elem _ _ a k =>
      forallb (fun x => valid_xml_text (at_val x)) a && no_adjacent_text k &&
      (fix go (l : list node) : bool := match l with [] => true | x :: r => plain_values x && go r end) k
  | Text s => valid_xml_text s
  | _ => true
  end.
Fixpoint plain_values_kids (l : list node) : bool := match l with [] => true | x :: r => plain_values x && plain_values_kids r end.
Lemma plain_values_elem s t a k :
  plain_values (Elem s t a k) = forallb (fun x => valid_xml_text (at_val x)) a && no_adjacent_text k && plain_values_kids k.
Proof.
  cbn [plain_values]. f_equal; try (induction k as [|x r IH]; [reflexivity|]; cbn [plain_values_kids]; rewrite IH; reflexivity).
Qed.

Definition starts_lt (r : string) : Prop := exists r', r = String "<" r'.

Lemma non_text_starts_lt n r : is_text n = false -> starts_lt (c14n_write n ++ r).
Proof.
  destruct n as [s t a k|s|s|t i|s]; intros H; try discriminate; [rewrite c14n_write_elem|cbn [c14n_write]..]; eexists; cbn [String.append]; reflexivity.
Qed.

Lemma kids_cont_starts_lt k r : starts_lt r -> (match k with x :: _ => is_text x = false | [] => True end) -> starts_lt (c14n_write_kids k ++ r).
Proof.
  destruct k as [|x k]; intros Hr Hx; [exact Hr|]. cbn [c14n_write_kids]. rewrite append_assoc. apply non_text_starts_lt. exact Hx.
Qed.

Lemma attrs_inj : forall a a' r1 r2,
  same_attr_names a a' ->
  forallb (fun x => valid_xml_text (at_val x)) a = true -> forallb (fun x => valid_xml_text (at_val x)) a' = true ->
  (c14n_write_attrs a ++ String ">" r1 = c14n_write_attrs a' ++ String ">" r2)%string -> a = a' /\ r1 = r2.
Proof.
  induction a as [|x a IH]; intros [|y a'] r1 r2 HS V1 V2 H; cbn [same_attr_names] in HS; try contradiction.
  - cbn in H. inversion H. auto.
  - destruct HS as (Hs & Hk & HS). cbn [forallb] in V1, V2. apply andb_prop in V1 as [Vx V1]. apply andb_prop in V2 as [Vy V2].
    cbn [c14n_write_attrs] in H. unfold c14n_write_attr in H. rewrite <- Hs, <- Hk in H.
    rewrite !append_assoc in H. cbn [String.append] in H. inversion H as [H1]. clear H.
    apply append_inv_head in H1. cbn [String.append] in H1. inversion H1 as [H2]. clear H1.
    unfold Build.dq in H2. cbn [String.append] in H2.
    apply (split_at_byte 34) in H2; [|reflexivity|apply etree_escape_no_dquote; discriminate|apply etree_escape_no_dquote; discriminate].
    destruct H2 as [Hv H2].
    apply canon_escape_injective in Hv; auto.
    destruct (IH a' r1 r2 HS V1 V2 H2) as [-> ->].
    destruct x, y; cbn in *; subst; auto.
Qed.

Lemma c14n_write_inj : forall n m r1 r2,
  same_shape n m -> plain_values n = true -> plain_values m = true ->
  (is_text n = true -> starts_lt r1 /\ starts_lt r2) ->
  (c14n_write n ++ r1 = c14n_write m ++ r2)%string -> n = m /\ r1 = r2.
Proof.
  fix IH 1. intros [s t a k|s|s|t i|s] [s' t' a' k'|s'|s'|t' i'|s'] r1 r2 HS P1 P2 HT H; cbn [same_shape] in HS; try contradiction.
  - apply same_shape_elem in HS. destruct HS as (<- & <- & HA & HK).
    rewrite plain_values_elem in P1, P2. apply andb_prop in P1 as [P1 PK1]. apply andb_prop in P1 as [V1 N1].
    apply andb_prop in P2 as [P2 PK2]. apply andb_prop in P2 as [V2 N2].
    rewrite !c14n_write_elem in H. rewrite !append_assoc in H. cbn [String.append] in H. inversion H as [H1]. clear H.
    apply append_inv_head in H1. cbn [String.append] in H1.
    destruct (attrs_inj _ _ _ _ HA V1 V2 H1) as [-> H2]. clear H1.
    assert (HKI : no_adjacent_text k = true -> plain_values_kids k = true ->
              forall k' q1 q2, same_shape_kids k k' -> no_adjacent_text k' = true ->
              plain_values_kids k' = true -> starts_lt q1 -> starts_lt q2 ->
              (c14n_write_kids k ++ q1 = c14n_write_kids k' ++ q2)%string -> k = k' /\ q1 = q2).
    { clear - IH. induction k as [|x r IHr]; intros N1 P1 [|y r'] q1 q2 HS N2 P2 Q1 Q2 H; cbn [same_shape_kids] in HS; try contradiction.
      - cbn in H. split; [reflexivity|exact H].
      - destruct HS as [Hxy HS]. cbn [plain_values_kids] in P1, P2. apply andb_prop in P1 as [Px P1]. apply andb_prop in P2 as [Py P2].
        cbn [c14n_write_kids] in H. rewrite !append_assoc in H.
        assert (Nr : no_adjacent_text r = true /\ (is_text x = true -> match r with z :: _ => is_text z = false | [] => True end)).
        { destruct r as [|z r0]; [split; [reflexivity|trivial]|]. cbn [no_adjacent_text] in N1. apply andb_prop in N1 as [A B]. split; [exact B|].
          intros Tx. rewrite Tx in A. cbn in A. destruct (is_text z); [discriminate|reflexivity]. }
        assert (Nr' : no_adjacent_text r' = true /\ (is_text y = true -> match r' with z :: _ => is_text z = false | [] => True end)).
        { destruct r' as [|z r0]; [split; [reflexivity|trivial]|]. cbn [no_adjacent_text] in N2. apply andb_prop in N2 as [A B]. split; [exact B|].
          intros Ty. rewrite Ty in A. cbn in A. destruct (is_text z); [discriminate|reflexivity]. }
        destruct Nr as [Nr Tx]. destruct Nr' as [Nr' Ty].
        assert (Txy : is_text y = is_text x) by (destruct x, y; cbn [same_shape] in Hxy; try contradiction; reflexivity).
        assert (HT : is_text x = true -> starts_lt (c14n_write_kids r ++ q1) /\ starts_lt (c14n_write_kids r' ++ q2)).
        { intros T. split; (apply kids_cont_starts_lt; [assumption|]); [apply Tx; exact T | apply Ty; rewrite Txy; exact T]. }
        destruct (IH x y _ _ Hxy Px Py HT H) as [-> H2].
        destruct (IHr Nr P1 r' q1 q2 HS Nr' P2 Q1 Q2 H2) as [-> ->]. split; reflexivity. }
    destruct (HKI N1 PK1 k' _ _ HK N2 PK2 (ex_intro _ _ eq_refl) (ex_intro _ _ eq_refl) H2) as [-> H3].
    cbn [String.append] in H3. inversion H3 as [H4]. apply append_inv_head in H4. cbn [String.append] in H4. injection H4 as H5. split; [reflexivity|exact H5].
  - clear IH. cbn [plain_values] in P1, P2. destruct (HT eq_refl) as [[q1 ->] [q2 ->]]. cbn [c14n_write] in H.
    apply (split_at_byte 60) in H; [|reflexivity|apply etree_escape_no_lt|apply etree_escape_no_lt].
    destruct H as [Hv Hq]. apply canon_escape_injective in Hv; [|assumption|assumption]. subst. auto.
  - clear IH. subst s'. cbn [c14n_write] in H. rewrite !append_assoc in H. apply append_inv_head in H. apply append_inv_head in H. apply append_inv_head in H. auto.
  - clear IH. destruct HS as [<- <-]. cbn [c14n_write] in H. rewrite !append_assoc in H. do 4 apply append_inv_head in H. auto.
  - clear IH. subst s'. cbn [c14n_write] in H. rewrite !append_assoc in H. do 3 apply append_inv_head in H. auto.
Qed.

Theorem c14n_write_determines_values n m :
  same_shape n m -> plain_values n = true -> plain_values m = true -> c14n_write n = c14n_write m -> n = m.
Proof.
  intros HS P1 P2 H.
  destruct n as [s t a k|s|s|t i|s].
  - destruct (c14n_write_inj (Elem s t a k) m "" "" HS P1 P2 (fun T => False_ind _ (Bool.diff_false_true T))) as [E _].
    + rewrite !app_nil_r_s. exact H.
    + exact E.
  - destruct m as [| s' | | |]; cbn [same_shape] in HS; try contradiction.
    cbn [c14n_write plain_values] in *. f_equal. apply (canon_escape_injective CanonText); assumption.
  - destruct (c14n_write_inj (Comment s) m "" "" HS P1 P2 (fun T => False_ind _ (Bool.diff_false_true T))) as [E _]; [rewrite !app_nil_r_s; exact H|exact E].
  - destruct (c14n_write_inj (ProcInst t i) m "" "" HS P1 P2 (fun T => False_ind _ (Bool.diff_false_true T))) as [E _]; [rewrite !app_nil_r_s; exact H|exact E].
  - destruct (c14n_write_inj (Directive s) m "" "" HS P1 P2 (fun T => False_ind _ (Bool.diff_false_true T))) as [E _]; [rewrite !app_nil_r_s; exact H|exact E].
Qed.

(* PARTIAL: stated for the trees the canonicaliser PREPARED ([canon_prep]: attributes sorted, redundant declarations
   dropped / declarations moved, comments dropped -- values are never touched by it, which is not proved here): two messages
   whose prepared trees have the same shape (element names, attribute names, token kinds; comments / processing instructions
   equal) and whose digest inputs are equal have the same value in every attribute and every character-data token.  So a
   change of any attribute value or text of the message changes the bytes that are hashed into DigestValue. *)
Theorem digest_input_determines_values_partial cx e1 e2 p1 p2 :
  canon_prep (canon_alg_of (cx_canon cx)) e1 = Some p1 -> canon_prep (canon_alg_of (cx_canon cx)) e2 = Some p2 ->
  same_shape p1 p2 -> plain_values p1 = true -> plain_values p2 = true ->
  signer_digest_input canon_model cx e1 = signer_digest_input canon_model cx e2 -> p1 = p2.
Proof.
  intros H1 H2 HS P1 P2 H. unfold signer_digest_input, canon_model in H. rewrite H1, H2 in H. cbn [option_map] in H.
  inversion H as [H']. apply c14n_write_determines_values; assumption.
Qed.

Module DigestExample.
  Import SVExample SignerExample.
  Definition cfg_acs (acs : string) : bcfg :=
    {| b_sp_issuer := "https://sp.example/"; b_idp_issuer := "idp"; b_acs_url := acs;
       b_idp_sso_url := "https://idp.example/sso"; b_idp_slo_url := "https://idp.example/slo"; b_force_authn := true; b_is_passive := false;
       b_name_id_format := "urn:oasis:names:tc:SAML:1.1:nameid-format:emailAddress";
       b_rac := Some {| rac_comparison := "exact"; rac_contexts := ["urn:c1"; "urn:c2"] |};
       b_sign_authn_requests := true; b_sign_algorithm := ""; b_canonicalizer := None |}.
  Definition el_a : node := build_authn_request (cfg_acs "https://sp.example/acs?a=1&b=2") "id-1" t_now.
  Definition el_b : node := build_authn_request (cfg_acs "https://sp.example/acs?a=1&b=3") "id-1" t_now.
  Definition cx0 : sign_ctx := cx_of (cfg_acs "").

  (* the DigestValue of the accepted run m1 is base64(digest(canon_model of the whole element)) *)
  Example digest_value_of_m1 :
    exists sv, signer_crypto canon_model t_digest t_sign (m_cx m1) (m_el' m1) = Ok (base64_encode (m_d m1), sv) /\
               canon_model (canon_alg_of (cx_canon (m_cx m1))) (m_el' m1) = Some (m_bytes m1) /\
               t_digest (digest_id (cx_hash (m_cx m1))) (m_bytes m1) = Some (m_d m1).
  Proof. eexists. split; [vm_compute; reflexivity|]. split; vm_compute; reflexivity. Qed.

  (* the premises of digest_input_determines_values_partial are satisfiable, and its contrapositive at work: two
     AuthnRequests that differ in ONE character of the AssertionConsumerServiceURL have different digest inputs *)
  Example one_character_changes_digest_input :
    exists p1 p2,
      canon_prep (canon_alg_of (cx_canon cx0)) el_a = Some p1 /\ canon_prep (canon_alg_of (cx_canon cx0)) el_b = Some p2 /\
      same_shape p1 p2 /\ plain_values p1 = true /\ plain_values p2 = true /\ p1 <> p2 /\
      signer_digest_input canon_model cx0 el_a <> signer_digest_input canon_model cx0 el_b.
  Proof.
    eexists. eexists. split; [vm_compute; reflexivity|]. split; [vm_compute; reflexivity|].
    split; [vm_compute; repeat split|]. split; [vm_compute; reflexivity|]. split; [vm_compute; reflexivity|].
    split; [vm_compute; intros H; discriminate H|].
    intros H.
    assert (HN : forall p q : node, p <> q -> p = q -> False) by (intros p q A B; exact (A B)).
    eapply HN; [|eapply (digest_input_determines_values_partial cx0 el_a el_b); try exact H; try (vm_compute; reflexivity); vm_compute; repeat split].
    vm_compute. intros E. discriminate E.
  Qed.
End DigestExample.
