(* P_Signer.v -- C13: the signer's own computation of DigestValue / SignatureValue (Signer.v) composed with the verifier
   (Dsig.v) and the canonicaliser model (Canon.v).
     (a) the canonical SignedInfo bytes the SIGNER signs are the bytes the VERIFIER recomputes from the signed element;
     (b) P_SignVerify.signed_message_verifies instantiated with canon := canon_model and the crypto pair := signer_crypto;
     (c) the bytes hashed into DigestValue are the canonical form of the whole message element. *)
From Coq Require Import Lia.
From V Require Import Base Time Escape EscapeProofs Xml Ns SchemaDefs Schema Types ConcDefs Generated Decode Response P_Ns.
From V Require Import Build P_Build P_Sign Dsig P_Dsig Canon P_Canon Signer P_SignVerify.
Local Open Scope nat_scope.
Local Open Scope string_scope.
Local Open Scope list_scope.

(* ================================================================ 1. Signer.v's vocabulary = P_SignVerify's *)
Lemma id_alg_eq id : id_alg id = alg_of_id id.
Proof. reflexivity. Qed.
Lemma canon_alg_of_eq c : canon_alg_of c = signer_alg c.
Proof. destruct c; reflexivity. Qed.

(* the SignedInfo the signer detaches IS the first child of the Signature element it finally returns *)
Lemma signature_element_shell sm cid h ref dv sv certs :
  signature_element sm cid h ref dv sv certs =
  Elem "ds" "Signature" [dsdecl]
    [ signed_info_element sm cid h ref dv;
      Elem "ds" "SignatureValue" [] (text_kids sv);
      Elem "ds" "KeyInfo" [] [Elem "ds" "X509Data" [] (map cert_node certs)] ].
Proof. reflexivity. Qed.

Lemma signed_info_element_tree sm cid h ref dv :
  dv <> "" ->
  signed_info_element sm cid h ref dv = si_el sm cid (if ref =?s "" then "" else "#" ++ ref) (digest_id h) dv.
Proof.
  intros Hd. apply str_eqb_neq in Hd.
  change (signed_info_element sm cid h ref dv) with
    (Elem "ds" "SignedInfo" []
       [ Elem "ds" "CanonicalizationMethod" (dsA cid) [];
         Elem "ds" "SignatureMethod" (dsA sm) [];
         Elem "ds" "Reference" [A "" "URI" (if ref =?s "" then "" else "#" ++ ref)]
           [ Elem "ds" "Transforms" [] [Elem "ds" "Transform" (dsA enveloped_signature_id) []; Elem "ds" "Transform" (dsA cid) []];
             Elem "ds" "DigestMethod" (dsA (digest_id h)) [];
             Elem "ds" "DigestValue" [] (text_kids dv) ] ]).
  unfold si_el, text_kids. rewrite Hd. reflexivity.
Qed.

(* the signer pushes xmlns:ds ONCE, the verifier twice: the detached SignedInfo is the same element *)
Lemma signer_detached_eq L el' sm cid uri hid dv :
  In L decl_sets -> sub_context default_ctx (attrs_of el') = Ok (ctx_of L) ->
  let si := si_el sm cid uri hid dv in
  signer_detached el' (signature_shell si) si = Ok (si_det L si).
Proof.
  intros HL HS si. unfold signer_detached. rewrite HS. cbn [bind].
  subst si. cbn [decl_sets In] in HL. destruct HL as [<-|[<-|[<-|[]]]]; vm_compute; reflexivity.
Qed.

(* the canonicaliser the VERIFIER selects for SignedInfo from CanonicalizationMethod (REC-xml-c14n is prepared as c14n 1.1),
   and what the model of the SIGNER's canonicaliser object prepares: the same tree *)
Definition si_alg_of_id (id : string) : canon_alg :=
  if id =?s alg_exc then CExc "" false else if id =?s alg_exc_wc then CExc "" true
  else if (id =?s alg_c11) || (id =?s alg_rec) then C11 false else C11 true.

Lemma si_prepared_fst L sm cid uri hid dv : In L decl_sets -> In cid c14n_ids ->
  fst (si_prepared cid (si_det L (si_el sm cid uri hid dv))) = si_alg_of_id cid.
Proof.
  intros HL HC. cbn [decl_sets c14n_ids In] in HL, HC.
  destruct HL as [<-|[<-|[<-|[]]]]; destruct HC as [<-|[<-|[<-|[<-|[<-|[<-|[]]]]]]]; vm_compute; reflexivity.
Qed.

Lemma signer_prep_is_verifier_prep L sm cid uri hid dv : In L decl_sets -> In cid c14n_ids ->
  let det := si_det L (si_el sm cid uri hid dv) in
  canon_prep (id_alg cid) det = Some (snd (si_prepared cid det)) /\
  canon_prep (si_alg_of_id cid) det = Some (snd (si_prepared cid det)).
Proof.
  intros HL HC. cbn [decl_sets c14n_ids In] in HL, HC.
  destruct HL as [<-|[<-|[<-|[]]]]; destruct HC as [<-|[<-|[<-|[<-|[<-|[<-|[]]]]]]]; split; vm_compute; reflexivity.
Qed.

(* the prepared SignedInfo of the signer, as a tree (its canonical bytes are c14n_write of it) *)
Definition signer_si_prepared (cx : sign_ctx) (sm : string) (el' : node) (dv : string) : res node :=
  let si := signer_signed_info cx sm el' dv in
  do det <- signer_detached el' (signature_shell si) si;
  match canon_prep (canon_alg_of (cx_canon cx)) det with
  | Some p => Ok p
  | None => Err (EOther "canonicalize")
  end.

Lemma signer_si_bytes_prepared cx sm el' dv p :
  signer_si_prepared cx sm el' dv = Ok p -> signer_si_bytes canon_model cx sm el' dv = Ok (c14n_write p).
Proof.
  unfold signer_si_prepared, signer_si_bytes.
  destruct (signer_detached el' _ _) as [det|e]; [|discriminate]. cbn [bind]. unfold canon_model.
  destruct (canon_prep (canon_alg_of (cx_canon cx)) det) as [q|]; [|discriminate].
  intros H. inversion H. reflexivity.
Qed.

(* ================================================================ 2. (a) the signer signs what the verifier checks *)
(* getCanonicalSignedInfo on the tree findSignature left behind: [canon] of the detached SignedInfo under the algorithm
   findSignature selected (the computation inside P_SignVerify.signed_message_outcome, for any canonicaliser oracle) *)
Lemma canonical_signed_info_found canon sp t a c0 rest L sm cid uri hid dv sv c64 :
  In L decl_sets -> In cid c14n_ids -> sub_context default_ctx a = Ok (ctx_of L) ->
  let si := si_el sm cid uri hid dv in
  let root' := Elem sp t a (c0 :: sig_tree (snd (si_prepared cid (si_det L si))) sv c64 :: rest) in
  canonical_signed_info canon root' (found L sm cid uri hid dv sv c64) =
  match canon (fst (si_prepared cid (si_det L si))) (si_det L si) with
  | Some b => Ok b
  | None => Err (EOther "si-bytes")
  end.
Proof.
  intros HL HC HS si root'. pose proof HS as HS2. apply sub_ctx_ok in HS2.
  unfold canonical_signed_info, root'. cbn [found fs_path fs_si_alg fs_si_detached parent_ctx node_at kids_of attrs_of nth_error].
  rewrite HS2. cbn [bind].
  destruct (find_replaced_signed_info L sm cid uri hid dv sv c64 HL HC) as (x & lim & Hf). fold si in Hf.
  rewrite Hf. cbn [bind fst]. fold si.
  destruct (canon (fst (si_prepared cid (si_det L si))) (si_det L si)); reflexivity.
Qed.

Theorem signer_signs_what_verifier_checks cx el dv sv el' sg signed sm der :
  construct_signature cx el (Ok (dv, sv)) = ORet (Ok (el', sg)) ->
  sign_placement el' sg = ORet (Ok signed) ->
  signable el' = true ->
  In (canon_id (cx_canon cx)) c14n_ids -> canon_alg_of (cx_canon cx) = id_alg (canon_id (cx_canon cx)) ->
  ctx_certs (cx_keys cx) = Ok [der] -> der <> "" -> dv <> "" -> sv <> "" ->
  declared_method cx = Some sm ->
  exists root' f sib,
    find_signature signed = Ok (root', f) /\
    signer_si_bytes canon_model cx sm el' dv = Ok sib /\
    canonical_signed_info canon_model root' f = Ok sib.
Proof.
  intros HCS HPL HSG HCin HCalg HCerts Hder Hdv0 Hsv0 Hsm.
  destruct (signed_shape _ _ _ _ _ _ _ _ _ HCS HPL HSG HCerts Hder Hdv0 Hsv0 Hsm) as (sp & t & a & c0 & rest & -> & -> & ->).
  destruct (signable_inv _ _ _ _ _ HSG) as (L & ns & He0 & HL & HS & ELk & Hns & HQ & Hcnt & Hid & Hcrf).
  set (cid := canon_id (cx_canon cx)) in *. set (h := cx_hash cx) in *.
  set (ref := select_attr_value "ID" a) in *.
  set (uri := if ref =?s "" then "" else ("#" ++ ref)%string) in *.
  set (hid := digest_id h) in *.
  set (si := si_el sm cid uri hid dv) in *.
  set (c64 := base64_encode der) in *.
  pose proof (find_signature_signed sp t a c0 rest L ns sm cid hid dv sv c64 He0 HL HS ELk Hns HQ Hcnt Hid Hcrf HCin) as HFS.
  cbv zeta in HFS. fold ref in HFS. fold uri in HFS. fold si in HFS.
  destruct (signer_prep_is_verifier_prep L sm cid uri hid dv HL HCin) as [Hsp Hvp]. cbv zeta in Hsp, Hvp. fold si in Hsp, Hvp.
  eexists. eexists. exists (c14n_write (snd (si_prepared cid (si_det L si)))).
  split; [exact HFS|]. split.
  - apply signer_si_bytes_prepared. unfold signer_si_prepared, signer_signed_info. cbn [attrs_of]. fold cid h ref.
    rewrite (signed_info_element_tree sm cid h ref dv Hdv0). fold uri hid si.
    pose proof (signer_detached_eq L (Elem sp t a (c0 :: rest)) sm cid uri hid dv HL HS) as HD. cbv zeta in HD. fold si in HD.
    rewrite HD. cbn [bind]. rewrite HCalg. fold cid. rewrite Hsp. reflexivity.
  - pose proof (canonical_signed_info_found canon_model sp t a c0 rest L sm cid uri hid dv sv c64 HL HCin HS) as HC.
    cbv zeta in HC. fold si in HC. rewrite HC.
    unfold si. rewrite (si_prepared_fst L sm cid uri hid dv HL HCin). fold si.
    unfold canon_model. rewrite Hvp. reflexivity.
Qed.

(* ================================================================ 3. (b) sign with the modelled signer, then verify *)
(* what a successful ConstructSignature with the modelled crypto pair computed on the way *)
Lemma construct_signature_modelled_inv canon digest sign cx el el' sg :
  construct_signature_modelled canon digest sign cx el = ORet (Ok (el', sg)) ->
  exists dv sv,
    canon_apply (cx_canon cx) el = Ok el' /\ signer_crypto canon digest sign cx el' = Ok (dv, sv) /\
    construct_signature cx el (Ok (dv, sv)) = ORet (Ok (el', sg)).
Proof.
  unfold construct_signature_modelled, crypto_for, construct_signature.
  destruct (ctx_pk (cx_keys cx)) as [pk|]; [|discriminate].
  destruct (id_by_method pk (cx_hash cx) signature_method_ids) as [sm|]; [|discriminate].
  destruct (canon_apply (cx_canon cx) el) as [el''|e]; [|discriminate].
  destruct (signer_crypto canon digest sign cx el'') as [[dv sv]|e] eqn:ESC; [|discriminate].
  destruct (ctx_certs (cx_keys cx)) as [certs|e]; [|discriminate].
  intros H. inversion H; subst. exists dv, sv. repeat split; auto.
Qed.

Lemma signer_crypto_inv canon digest sign cx el' dv sv :
  signer_crypto canon digest sign cx el' = Ok (dv, sv) ->
  exists sm bytes d sib key,
    declared_method cx = Some sm /\
    signer_digest_input canon cx el' = Some bytes /\ digest (digest_id (cx_hash cx)) bytes = Some d /\
    dv = base64_encode d /\
    signer_si_bytes canon cx sm el' dv = Ok sib /\
    ctx_signing_key (cx_keys cx) = Some (Ok key) /\
    sv = base64_encode (sign key sm sib).
Proof.
  unfold signer_crypto, ctx_method, ctx_digest, declared_method, signer_digest_input.
  destruct (ctx_pk (cx_keys cx)) as [pk|]; [|discriminate].
  destruct (id_by_method pk (cx_hash cx) signature_method_ids) as [sm|] eqn:EM; [|discriminate]. cbn [bind].
  destruct (canon (canon_alg_of (cx_canon cx)) el') as [bytes|] eqn:EB; [|discriminate].
  destruct (digest (digest_id (cx_hash cx)) bytes) as [d|] eqn:ED; [|discriminate]. cbn [bind].
  destruct (signer_si_bytes canon cx sm el' (base64_encode d)) as [sib|e] eqn:ES; [|discriminate]. cbn [bind].
  destruct (ctx_signing_key (cx_keys cx)) as [[key|e]|] eqn:EK; try discriminate.
  intros H. inversion H; subst. exists sm, bytes, d, sib, key. repeat split; auto.
Qed.

Section SignVerifyModelled.
  Variable digest : string -> string -> option string.
  Variable sig_ok : cert -> string -> string -> string -> bool.
  Variable parse_cert : string -> option cert.
  Variable reparse : string -> option node.
  Variable sign : string -> string -> string -> string.
  Variable key : string.
  Variable der : string.
  Variable crt : cert.

  (* LAWS OF THE ORACLES: those of P_SignVerify.SignVerify *)
  Hypothesis H_sign_verifies : forall m b, sig_ok crt m b (sign key m b) = true.
  Hypothesis H_sign_nonempty : forall m b, sign key m b <> "".
  Hypothesis H_parse_cert : parse_cert der = Some crt.
  Hypothesis H_digest_len : forall alg b d, digest alg b = Some d -> 20 <= String.length d.

  (* The message signed by the MODELLED signer is accepted by the verifier, canonicalisers being Canon.canon_model on both
     sides.  [sm bytes d p] only NAME what the signer computed (the SignatureMethod identifier, the digest input, the digest,
     the prepared SignedInfo); the two premises about [reparse] are the parser round trip at exactly those two byte strings. *)
  Theorem sign_verify_accepts_modelled cx el el' sg signed now sm bytes d p v :
    construct_signature_modelled canon_model digest sign cx el = ORet (Ok (el', sg)) ->
    sign_placement el' sg = ORet (Ok signed) ->
    signable el' = true ->
    In (canon_id (cx_canon cx)) c14n_ids -> canon_alg_of (cx_canon cx) = id_alg (canon_id (cx_canon cx)) ->
    ctx_certs (cx_keys cx) = Ok [der] -> der <> "" ->
    ctx_signing_key (cx_keys cx) = Some (Ok key) ->
    cert_valid_at crt now = true ->
    declared_method cx = Some sm ->
    signer_digest_input canon_model cx el' = Some bytes -> digest (digest_id (cx_hash cx)) bytes = Some d ->
    signer_si_prepared cx sm el' (base64_encode d) = Ok p ->
    reparse (c14n_write p) = Some p ->
    reparse bytes = Some v ->
    dsig_validate canon_model digest sig_ok parse_cert reparse [crt] now signed = DOk v.
  Proof.
    intros HCM HPL HSG HCin HCalg HCerts Hder Hkey Hvalid Hsm Hbytes Hdig Hprep Hrsi Hrep.
    destruct (construct_signature_modelled_inv _ _ _ _ _ _ _ HCM) as (dv & sv & HCA & HSC & HCS).
    destruct (signer_crypto_inv _ _ _ _ _ _ _ HSC) as (sm' & bytes' & d' & sib & key' & Hsm' & Hb' & Hd' & Hdv & Hsib & Hkey' & Hsv).
    rewrite Hsm in Hsm'. inversion Hsm'; subst sm'. clear Hsm'.
    rewrite Hbytes in Hb'. inversion Hb'; subst bytes'. clear Hb'.
    rewrite Hdig in Hd'. inversion Hd'; subst d'. clear Hd'.
    rewrite Hkey in Hkey'. inversion Hkey'; subst key'. clear Hkey'.
    rewrite Hdv in Hsib. rewrite (signer_si_bytes_prepared _ _ _ _ _ Hprep) in Hsib. inversion Hsib; subst sib. clear Hsib.
    assert (Hd0 : d <> "") by (intros ->; pose proof (H_digest_len _ _ _ Hdig) as Hl; cbn in Hl; lia).
    assert (Hdv0 : dv <> "") by (subst dv; apply base64_nonempty; exact Hd0).
    assert (Hsv0 : sv <> "") by (subst sv; apply base64_nonempty; apply H_sign_nonempty).
    (* the verifier's detached / prepared SignedInfo is the signer's *)
    destruct (signed_info_query_defined cx el dv sv el' sg signed sm der HCS HPL HSG HCin HCerts Hder Hdv0 Hsv0 Hsm) as (det & sa & p' & Hdet & _ & Hsp).
    destruct (signed_shape _ _ _ _ _ _ _ _ _ HCS HPL HSG HCerts Hder Hdv0 Hsv0 Hsm) as (sp & t & a & c0 & rest & Eel & Esg & Esigned).
    destruct (signable_inv _ _ _ _ _ (eq_ind _ (fun x => signable x = true) HSG _ Eel)) as (L & ns & He0 & HL & HS & _).
    set (cid := canon_id (cx_canon cx)) in *.
    set (uri := if select_attr_value "ID" a =?s "" then "" else ("#" ++ select_attr_value "ID" a)%string) in *.
    set (hid := digest_id (cx_hash cx)) in *.
    set (si := si_el sm cid uri hid dv) in *.
    (* det = si_det L si *)
    assert (Hdet' : det = si_det L si).
    { rewrite Eel, Esg in Hdet. unfold si_detached in Hdet. cbn [attrs_of kids_of sig_tree] in Hdet.
      pose proof HS as HS2. apply sub_ctx_ok in HS2. rewrite HS2 in Hdet. cbn [bind] in Hdet.
      change (sub_ctx (ctx_of L) [dsdecl]) with (Ok (("ds", ds_ns) :: ctx_of L) : res nsctx) in Hdet. cbn [bind] in Hdet.
      change (sub_ctx (("ds", ds_ns) :: ctx_of L) [dsdecl]) with (Ok (("ds", ds_ns) :: ("ds", ds_ns) :: ctx_of L) : res nsctx) in Hdet. cbn [bind] in Hdet.
      fold si in Hdet. unfold si in Hdet. rewrite (si_det_ok L sm cid uri hid dv HL) in Hdet. inversion Hdet. reflexivity. }
    subst det.
    assert (Hprepd : si_prepared cid (si_det L si) = (sa, p')) by (unfold si_prepared; rewrite Hsp; reflexivity).
    destruct (signer_prep_is_verifier_prep L sm cid uri hid dv HL HCin) as [Hsgp Hvp]. cbv zeta in Hsgp, Hvp. fold si in Hsgp, Hvp.
    rewrite Hprepd in Hsgp, Hvp. cbn [snd] in Hsgp, Hvp.
    pose proof (si_prepared_fst L sm cid uri hid dv HL HCin) as Hfst. fold si in Hfst. rewrite Hprepd in Hfst. cbn [fst] in Hfst.
    (* p = p' *)
    assert (Hpp : p = p').
    { unfold signer_si_prepared, signer_signed_info in Hprep. rewrite Eel in Hprep. cbn [attrs_of] in Hprep.
      rewrite <- Hdv in Hprep. fold cid in Hprep.
      rewrite (signed_info_element_tree sm cid (cx_hash cx) (select_attr_value "ID" a) dv Hdv0) in Hprep. fold uri hid si in Hprep.
      pose proof (signer_detached_eq L (Elem sp t a (c0 :: rest)) sm cid uri hid dv HL HS) as HD. cbv zeta in HD. fold si in HD.
      rewrite HD in Hprep. cbn [bind] in Hprep. rewrite HCalg in Hprep. fold cid in Hprep. rewrite Hsgp in Hprep.
      inversion Hprep. reflexivity. }
    subst p'.
    apply (signed_message_verifies canon_model digest sig_ok parse_cert reparse sign key der crt
             H_sign_verifies H_sign_nonempty H_parse_cert H_digest_len
             cx el dv sv el' sg signed now sm bytes d (si_det L si) sa p (c14n_write p) v); auto.
    rewrite Hfst. unfold canon_model. rewrite Hvp. reflexivity.
  Qed.
End SignVerifyModelled.
