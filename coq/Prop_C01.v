(* Prop_C01.v — property C01: accepted SSO assertions are always IdP-signed.
   Quantified over EVERY tree, EVERY behaviour of the signature oracle [dsig] (goxmldsig Validate under the configured
   store and clock) and of the decryption oracle [decrypt]: wrapping, duplication, relocation, ID collision, re-signing,
   attacker-chosen ciphertext are all just trees and oracle answers.
   [Vouched dsig el a]: a is the decoding of the tree the oracle returned (= the re-parsed canonical bytes whose digest
   it verified) for the detached copy of a DIRECT child Assertion element of el, with its flag set. *)
From V Require Import Base Time Escape Xml Ns Types Profile Decode Response P_Ns P_Response Dsig P_Dsig.

Theorem C01_response_sound : forall dsig decrypt cfg now root r,
  cfg_skip_sig cfg = false ->
  validate_response_tree dsig decrypt cfg now root = Ok r ->
  validate cfg now r = Ok tt /\
  (SignedPath dsig decrypt cfg now root r \/ UnsignedPath dsig decrypt cfg now root r).
Proof. exact response_sound. Qed.
Print Assumptions C01_response_sound.

(* unsigned Response: every returned assertion was individually verified; nothing decoded before verification survives *)
Theorem C01_every_assertion_of_unsigned_response_vouched : forall dsig decrypt cfg now root r,
  cfg_skip_sig cfg = false -> validate_response_tree dsig decrypt cfg now root = Ok r ->
  r_signature_validated r = false ->
  Forall (fun a => a_signature_validated a = true) (r_assertions r) /\
  exists root', decrypt_assertions decrypt root = Ok root' /\ Forall (Vouched dsig root') (r_assertions r).
Proof. exact unflagged_response_all_assertions_flagged. Qed.
Print Assumptions C01_every_assertion_of_unsigned_response_vouched.

(* an unsigned Response is accepted only if EVERY Assertion element anywhere in it (after decryption) is a direct child
   of the Response and carries its own verifying signature *)
Theorem C01_unsigned_response_needs_all_signed_and_direct : forall dsig decrypt cfg now root r,
  cfg_skip_sig cfg = false -> dsig root = DMissing ->
  validate_response_tree dsig decrypt cfg now root = Ok r ->
  exists root', decrypt_assertions decrypt root = Ok root' /\
    forall rel e ctx, subtree root' rel = Some e -> is_elem e = true -> ctx_at default_ctx root' rel = Some ctx ->
      is_assertion ctx e = true -> exists i det v, rel = [i] /\ detach ctx e = Ok det /\ dsig det = DOk v.
Proof. exact unsigned_response_needs_all_signed. Qed.
Print Assumptions C01_unsigned_response_needs_all_signed_and_direct.

(* signed Response: the result is the decoding of the VERIFIED tree (after decrypting its direct children), never of the input *)
Theorem C01_signed_response_decoded_from_verified_tree : forall dsig decrypt cfg now root r,
  cfg_skip_sig cfg = false -> validate_response_tree dsig decrypt cfg now root = Ok r ->
  r_signature_validated r = true -> SignedPath dsig decrypt cfg now root r.
Proof.
  intros dsig decrypt cfg now root r Hs H Hf.
  destruct (response_sound dsig decrypt cfg now root r Hs H) as [_ [HS|(r0 & root' & _ & _ & _ & _ & Hr & _)]]; [exact HS|rewrite Hr in Hf; discriminate].
Qed.
Print Assumptions C01_signed_response_decoded_from_verified_tree.

(* the caller-facing summary is computed from the validated response only *)
Theorem C01_assertion_info_from_validated_response : forall dsig decrypt cfg now root i,
  retrieve_assertion_info_tree dsig decrypt cfg now root = Ok i ->
  exists r, validate_response_tree dsig decrypt cfg now root = Ok r /\ retrieve_info_of cfg now r = Ok i /\
            ai_response_signature_validated i = r_signature_validated r /\ ai_assertions i = r_assertions r.
Proof. exact retrieve_info_ok. Qed.
Print Assumptions C01_assertion_info_from_validated_response.

(* ---- end to end with the model of the pinned signature library in place of the oracle (Dsig.v) ----
   [Covered ... root v]: a ds:Signature element inside root passed the shape check and carries a reference matching root's ID;
   its certificate is a store member inside its window at the clock; sig_ok accepted the canonical SignedInfo; the digest of the
   reference used equals the digest of the canonical form of root after the transforms; v is the parse of exactly those bytes. *)
Theorem C01_end_to_end_with_signature_model : forall canon digest sig_ok parse_cert reparse store decrypt cfg now root r,
  cfg_skip_sig cfg = false ->
  validate_response_tree (dsig_validate canon digest sig_ok parse_cert reparse store now) decrypt cfg now root = Ok r ->
  (r_signature_validated r = true /\
   exists v signed' r0, Covered canon digest sig_ok parse_cert reparse store now root v /\ decrypt_assertions decrypt v = Ok signed' /\
                        unmarshal_response signed' = Ok r0 /\ r = with_flag r0 true (r_assertions r0) (r_encrypted_count r0))
  \/
  (r_signature_validated r = false /\ find_signature root = Err EMissingSignature /\
   exists root', decrypt_assertions decrypt root = Ok root' /\
                 Forall (CoveredAssertion canon digest sig_ok parse_cert reparse store now root') (r_assertions r)).
Proof. exact response_end_to_end. Qed.
Print Assumptions C01_end_to_end_with_signature_model.

(* ---- source tie (DESIGN.md 2a): the body of ValidateEncodedResponse TRANSLATED from /repo on this run — closures,
   NSFindIterate handler, in-place field stores, every nil dereference an explicit panic — equals the model the theorems
   above are about, for every encoded message, configuration, clock and oracle behaviour (up to fmt.Errorf texts) ---- *)
From V Require Import Generated Keys GenPrelude GenPreludeD GenPreludeT GenFuncs GenTree P_GenTree P_GenTreeProps.
Theorem C01_source_ValidateEncodedResponse_is_the_model : forall parse dsig decrypt cfg now enc,
  norm_pm (G_ValidateEncodedResponse parse dsig (decrypt_assertions decrypt) cfg now enc)
  = PVal (norm_res (entry parse enc (validate_response_tree dsig decrypt cfg now))).
Proof. exact G_ValidateEncodedResponse_is_model. Qed.
Print Assumptions C01_source_ValidateEncodedResponse_is_the_model.

(* C01_response_sound, stated about the source: whatever the translated ValidateEncodedResponse accepts was decoded along
   the signed path or the unsigned path (every assertion vouched) *)
Theorem C01_source_acceptance_sound : forall parse dsig decrypt cfg now enc r,
  cfg_skip_sig cfg = false ->
  G_ValidateEncodedResponse parse dsig (decrypt_assertions decrypt) cfg now enc = PVal (Ok (Some r)) ->
  exists raw root, b64_decode enc = Ok raw /\ parse raw = Ok root /\ validate cfg now r = Ok tt /\
    (SignedPath dsig decrypt cfg now root r \/ UnsignedPath dsig decrypt cfg now root r).
Proof. exact source_acceptance_sound. Qed.
Print Assumptions C01_source_acceptance_sound.

(* ---- the whole inbound pipeline composed from the source of this run (P_Pipeline.v): ValidateEncodedResponse over the
   TRANSLATED parseResponse / maybeDeflate, decryptAssertions, getDecryptCert, DecryptBytes / DecryptSymmetricKey and the
   validation stage.  Remaining oracles: DEFLATE, etree's parser, the round-trip validator, goxmldsig's Validate, RSA / AES,
   X.509 parsing.  (src_chain is, argument by argument, the chain over the hand-written models: src_chain_pointwise.) ---- *)
From V Require Import Decrypt Deflate GenPreludeE GenPreludeK GenPreludeDeflate GenDecrypt GenDecTree GenKeys GenDeflate P_GenDecTree P_Pipeline.
Theorem C01_source_inbound_pipeline_is_the_model :
  forall inflate read_from_bytes rt_ok dsig rsa_oaep rsa_pkcs1 gcm_open cbc_decrypt sha1_hex parse_cert cfg kc venc now enc,
    norm_pm (G_ValidateEncodedResponse (src_parse inflate read_from_bytes rt_ok cfg) dsig
               (src_decrypt_all inflate read_from_bytes rt_ok rsa_oaep rsa_pkcs1 gcm_open cbc_decrypt parse_cert cfg kc venc now) cfg now enc)
    = PVal (norm_res (entry (model_parse inflate read_from_bytes rt_ok cfg) enc
                        (validate_response_tree dsig
                           (src_chain inflate read_from_bytes rt_ok rsa_oaep rsa_pkcs1 gcm_open cbc_decrypt sha1_hex parse_cert cfg kc venc now)
                           cfg now))).
Proof. exact source_inbound_pipeline. Qed.
Print Assumptions C01_source_inbound_pipeline_is_the_model.

Theorem C01_source_inbound_pipeline_sound :
  forall inflate read_from_bytes rt_ok dsig rsa_oaep rsa_pkcs1 gcm_open cbc_decrypt sha1_hex parse_cert cfg kc venc now enc r,
    cfg_skip_sig cfg = false ->
    G_ValidateEncodedResponse (src_parse inflate read_from_bytes rt_ok cfg) dsig
      (src_decrypt_all inflate read_from_bytes rt_ok rsa_oaep rsa_pkcs1 gcm_open cbc_decrypt parse_cert cfg kc venc now) cfg now enc
    = PVal (Ok (Some r)) ->
    let ch := src_chain inflate read_from_bytes rt_ok rsa_oaep rsa_pkcs1 gcm_open cbc_decrypt sha1_hex parse_cert cfg kc venc now in
    exists raw root, b64_decode enc = Ok raw /\ model_parse inflate read_from_bytes rt_ok cfg raw = Ok root /\ validate cfg now r = Ok tt /\
      (SignedPath dsig ch cfg now root r \/ UnsignedPath dsig ch cfg now root r).
Proof. exact source_pipeline_acceptance_sound. Qed.
Print Assumptions C01_source_inbound_pipeline_sound.

(* ---- the same pipeline FROM THE WIRE BYTES (P_PipelineBytes.v): the last oracle of the front end, etree's ReadFromBytes +
   Root(), is instantiated with the tokenizer / tree-building model XmlTok.read_root (the model compared token for token and
   tree for tree with the real decoder on every C09 / C20 run).  [reader_with junk] answers read_root's root without an error,
   and an error beside [junk s] — the partially built root etree leaves in the document when a read fails midway —; junk is
   universally quantified: parseResponse never looks at it.  The parse stage is [bytes_parse], written out over read_root in
   C01_parse_stage_from_bytes; the decrypted-assertion path (decryptAssertions -> parseResponse of the plaintext) goes through
   the same instance ([bytes_chain]).  Remaining oracles: DEFLATE, the round-trip validator, goxmldsig's Validate, RSA / AES,
   SHA-1 hex, X.509 parsing. ---- *)
From V Require Import XmlTok P_GenDeflate P_PipelineBytes.
Theorem C01_source_inbound_pipeline_from_bytes :
  forall inflate rt_ok dsig rsa_oaep rsa_pkcs1 gcm_open cbc_decrypt sha1_hex parse_cert cfg kc venc now junk enc,
    norm_pm (G_ValidateEncodedResponse (src_parse inflate (reader_with junk) rt_ok cfg) dsig
               (src_decrypt_all inflate (reader_with junk) rt_ok rsa_oaep rsa_pkcs1 gcm_open cbc_decrypt parse_cert cfg kc venc now) cfg now enc)
    = PVal (norm_res (entry (bytes_parse inflate rt_ok cfg) enc
                        (validate_response_tree dsig
                           (bytes_chain inflate rt_ok rsa_oaep rsa_pkcs1 gcm_open cbc_decrypt sha1_hex parse_cert cfg kc venc now)
                           cfg now))).
Proof. exact source_inbound_pipeline_from_bytes. Qed.
Print Assumptions C01_source_inbound_pipeline_from_bytes.

(* the parse stage of that statement: parseResponse over read_root — the raw bytes first; when they do not parse, the DEFLATE
   stream under the limit, then read_root of what it inflated to; no top-level element: "unable to parse response"; then the
   round-trip validator on the bytes that parsed *)
Theorem C01_parse_stage_from_bytes : forall inflate rt_ok cfg raw,
  bytes_parse inflate rt_ok cfg raw
  = let finish (o : option node) (xml : string) :=
      match o with
      | None => Err (EOther "unable to parse response")
      | Some el => if rt_ok xml then Ok el else Err e_roundtrip
      end in
    match read_root raw with
    | Ok o => finish o raw
    | Err _ =>
        let m := eff_limit (cfg_max_size cfg) in
        let r := limit_read_all inflate raw (read_limit m) in
        if snd r then Err e_inflate
        else if (zlen (fst r) >? m)%Z then Err (e_limit m)
        else match read_root (fst r) with Ok o => finish o (fst r) | Err _ => Err e_parse end
    end.
Proof. exact bytes_parse_spec. Qed.
Print Assumptions C01_parse_stage_from_bytes.

(* the reader instance against the oracle's shape: Deflate.v's view of it is read_root's result (read_doc's error, the first
   top-level element), whatever root a failed read leaves behind *)
Theorem C01_reader_oracle_is_read_root : forall junk s,
  parse_of (reader_with junk) s = match read_root s with Ok o => Some o | Err _ => None end.
Proof. exact parse_of_reader. Qed.
Print Assumptions C01_reader_oracle_is_read_root.

(* ... and with the goxmldsig oracle instantiated as well: Dsig.v's verifier with canon := Canon.canon_model and
   reparse := XmlTok.read_tree (DsigReader.dsig_validate_reader; Prop_DSIG.DSIG_sound_reader* say what it accepts), under a store
   and the SP clock.  Every parser of the inbound SSO path -- the wire bytes, the plaintext of decrypted assertions, the canonical
   bytes the verifier re-reads -- is now the one tokenizer / tree-building model; what remains an oracle of the composed inbound
   model: DEFLATE, the round-trip validator, digest and signature check, X.509 parsing, RSA / AES, SHA-1 hex. *)
From V Require Import Dsig Canon DsigReader.
Theorem C01_source_inbound_pipeline_from_bytes_crypto_oracles_only :
  forall inflate rt_ok digest sig_ok x509_parse store rsa_oaep rsa_pkcs1 gcm_open cbc_decrypt sha1_hex parse_cert cfg kc venc now junk enc,
    norm_pm (G_ValidateEncodedResponse (src_parse inflate (reader_with junk) rt_ok cfg)
               (dsig_validate_reader digest sig_ok x509_parse store now)
               (src_decrypt_all inflate (reader_with junk) rt_ok rsa_oaep rsa_pkcs1 gcm_open cbc_decrypt parse_cert cfg kc venc now) cfg now enc)
    = PVal (norm_res (entry (bytes_parse inflate rt_ok cfg) enc
                        (validate_response_tree (dsig_validate_reader digest sig_ok x509_parse store now)
                           (bytes_chain inflate rt_ok rsa_oaep rsa_pkcs1 gcm_open cbc_decrypt sha1_hex parse_cert cfg kc venc now)
                           cfg now))).
Proof.
  exact (fun inflate rt_ok digest sig_ok x509_parse store rsa_oaep rsa_pkcs1 gcm_open cbc_decrypt sha1_hex parse_cert cfg kc venc now junk enc =>
           source_inbound_pipeline_from_bytes inflate rt_ok (dsig_validate_reader digest sig_ok x509_parse store now)
             rsa_oaep rsa_pkcs1 gcm_open cbc_decrypt sha1_hex parse_cert cfg kc venc now junk enc).
Qed.
Print Assumptions C01_source_inbound_pipeline_from_bytes_crypto_oracles_only.

Theorem C01_source_inbound_pipeline_from_bytes_sound :
  forall inflate rt_ok dsig rsa_oaep rsa_pkcs1 gcm_open cbc_decrypt sha1_hex parse_cert cfg kc venc now junk enc r,
    cfg_skip_sig cfg = false ->
    G_ValidateEncodedResponse (src_parse inflate (reader_with junk) rt_ok cfg) dsig
      (src_decrypt_all inflate (reader_with junk) rt_ok rsa_oaep rsa_pkcs1 gcm_open cbc_decrypt parse_cert cfg kc venc now) cfg now enc
    = PVal (Ok (Some r)) ->
    let ch := bytes_chain inflate rt_ok rsa_oaep rsa_pkcs1 gcm_open cbc_decrypt sha1_hex parse_cert cfg kc venc now in
    exists raw root, b64_decode enc = Ok raw /\ bytes_parse inflate rt_ok cfg raw = Ok root /\ validate cfg now r = Ok tt /\
      (SignedPath dsig ch cfg now root r \/ UnsignedPath dsig ch cfg now root r).
Proof. exact source_pipeline_from_bytes_acceptance_sound. Qed.
Print Assumptions C01_source_inbound_pipeline_from_bytes_sound.
