(* Prop_C10.v — property C10: logout messages. *)
From V Require Import Base Time Xml Ns Types Profile Decode Response P_Profile P_Ns P_Response.

Theorem C10_logout_response_accept : forall dsig cfg root r,
  validate_logout_response_tree dsig cfg root = Ok r ->
  exists el flag r0, logout_signature_step dsig cfg root = Ok (el, flag) /\
    unmarshal_logout_response el = Ok r0 /\ r = lr_with_flag r0 flag /\ LogoutResponseOK cfg r.
Proof.
  intros dsig cfg root r H. destruct (logout_response_accept dsig cfg root r H) as (el & flag & r0 & A & B & C & D).
  exists el, flag, r0. split; [exact A|]. split; [exact B|]. split; [exact C|]. apply validate_logout_response_iff; exact D.
Qed.
Print Assumptions C10_logout_response_accept.

Theorem C10_logout_request_accept : forall dsig cfg root r,
  validate_logout_request_tree dsig cfg root = Ok r ->
  exists el flag r0, logout_signature_step dsig cfg root = Ok (el, flag) /\
    unmarshal_logout_request el = Ok r0 /\ r = lq_with_flag r0 flag /\ LogoutRequestOK cfg r.
Proof.
  intros dsig cfg root r H. destruct (logout_request_accept dsig cfg root r H) as (el & flag & r0 & A & B & C & D).
  exists el, flag, r0. split; [exact A|]. split; [exact B|]. split; [exact C|]. apply validate_logout_request_iff; exact D.
Qed.
Print Assumptions C10_logout_request_accept.

Theorem C10_logout_profile_iff : forall cfg,
  (forall r, validate_logout_response cfg r = Ok tt <-> LogoutResponseOK cfg r) /\
  (forall r, validate_logout_request cfg r = Ok tt <-> LogoutRequestOK cfg r).
Proof. intros cfg. split; intros r; [apply validate_logout_response_iff | apply validate_logout_request_iff]. Qed.
Print Assumptions C10_logout_profile_iff.

(* the flag is true exactly when signature checking is on and the ROOT verified; the decoded element is then the
   verified tree, otherwise the input root *)
Theorem C10_logout_flag_iff : forall dsig cfg root el flag,
  logout_signature_step dsig cfg root = Ok (el, flag) ->
  (flag = true <-> cfg_skip_sig cfg = false /\ dsig root = DOk el) /\
  (flag = false -> el = root /\ (cfg_skip_sig cfg = true \/ (dsig root = DMissing /\ ~ EnvelopedSignature root))).
Proof. exact logout_step_ok. Qed.
Print Assumptions C10_logout_flag_iff.

Theorem C10_bad_logout_signature_fatal : forall dsig cfg root,
  cfg_skip_sig cfg = false -> dsig root = DErr ->
  (exists e, validate_logout_response_tree dsig cfg root = Err e) /\
  (exists e, validate_logout_request_tree dsig cfg root = Err e).
Proof. exact logout_bad_signature_fatal. Qed.
Print Assumptions C10_bad_logout_signature_fatal.

(* the flags cannot be supplied by the sender: the SignatureValidated fields of all four decoded structs carry the
   struct tag xml:"-" in the CURRENT source (re-extracted on every run) *)
Theorem C10_flag_fields_not_decodable :
  forallb flag_field_is_skipped ["Response"; "Assertion"; "LogoutResponse"; "LogoutRequest"]%string = true.
Proof. exact flag_fields_not_decodable. Qed.
Print Assumptions C10_flag_fields_not_decodable.

(* ---- tie to the source text (GenFuncs.v is re-translated from /repo's validate.go / decode_*.go on every run) ---- *)
From V Require Import Profile GenPrelude GenFuncs P_GenFuncs.
Theorem C10_source_ValidateDecodedLogoutResponse_is_the_model : forall cfg now r,
  G_ValidateDecodedLogoutResponse cfg now r = PVal (validate_logout_response cfg r).
Proof. exact G_ValidateDecodedLogoutResponse_eq. Qed.
Print Assumptions C10_source_ValidateDecodedLogoutResponse_is_the_model.

Theorem C10_source_ValidateDecodedLogoutRequest_is_the_model : forall cfg now r,
  G_ValidateDecodedLogoutRequest cfg now r = PVal (validate_logout_request cfg r).
Proof. exact G_ValidateDecodedLogoutRequest_eq. Qed.
Print Assumptions C10_source_ValidateDecodedLogoutRequest_is_the_model.

(* source tie at the entry points: the TRANSLATED bodies of ValidateEncodedLogoutResponsePOST / ValidateEncodedLogoutRequestPOST *)
From V Require Import Generated Keys GenPreludeD GenPreludeT GenTree P_GenTree P_GenTreeProps.
Theorem C10_source_logout_entry_points_are_the_model : forall parse dsig cfg now enc,
  norm_pm (G_ValidateEncodedLogoutResponsePOST parse dsig cfg now enc)
  = PVal (norm_res (entry parse enc (validate_logout_response_tree dsig cfg))) /\
  norm_pm (G_ValidateEncodedLogoutRequestPOST parse dsig cfg now enc)
  = PVal (norm_res (entry parse enc (validate_logout_request_tree dsig cfg))).
Proof. exact (fun p d c n e => conj (G_ValidateEncodedLogoutResponsePOST_is_model p d c n e) (G_ValidateEncodedLogoutRequestPOST_is_model p d c n e)). Qed.
Print Assumptions C10_source_logout_entry_points_are_the_model.

Theorem C10_source_logout_response_accept : forall parse dsig cfg now enc r,
  G_ValidateEncodedLogoutResponsePOST parse dsig cfg now enc = PVal (Ok (Some r)) ->
  exists raw root el flag r0, b64_decode enc = Ok raw /\ parse raw = Ok root /\
    logout_signature_step dsig cfg root = Ok (el, flag) /\ unmarshal_logout_response el = Ok r0 /\ r = lr_with_flag r0 flag /\
    LogoutResponseOK cfg r.
Proof. exact source_logout_response_accept. Qed.
Print Assumptions C10_source_logout_response_accept.

Theorem C10_source_logout_request_accept : forall parse dsig cfg now enc r,
  G_ValidateEncodedLogoutRequestPOST parse dsig cfg now enc = PVal (Ok (Some r)) ->
  exists raw root el flag r0, b64_decode enc = Ok raw /\ parse raw = Ok root /\
    logout_signature_step dsig cfg root = Ok (el, flag) /\ unmarshal_logout_request el = Ok r0 /\ r = lq_with_flag r0 flag /\
    LogoutRequestOK cfg r.
Proof. exact source_logout_request_accept. Qed.
Print Assumptions C10_source_logout_request_accept.

(* the logout validators composed with the TRANSLATED parseResponse / maybeDeflate (P_Pipeline.v): remaining oracles are
   DEFLATE, etree's parser, the round-trip validator and goxmldsig's Validate *)
From V Require Import Deflate GenPreludeDeflate GenDeflate P_Pipeline.
Theorem C10_source_logout_pipelines_are_the_model :
  forall inflate read_from_bytes rt_ok dsig cfg now enc,
    norm_pm (G_ValidateEncodedLogoutResponsePOST (src_parse inflate read_from_bytes rt_ok cfg) dsig cfg now enc)
    = PVal (norm_res (entry (model_parse inflate read_from_bytes rt_ok cfg) enc (validate_logout_response_tree dsig cfg))) /\
    norm_pm (G_ValidateEncodedLogoutRequestPOST (src_parse inflate read_from_bytes rt_ok cfg) dsig cfg now enc)
    = PVal (norm_res (entry (model_parse inflate read_from_bytes rt_ok cfg) enc (validate_logout_request_tree dsig cfg))).
Proof.
  exact (fun inflate read_from_bytes rt_ok dsig cfg now enc =>
           conj (source_logout_response_pipeline inflate read_from_bytes rt_ok dsig cfg now enc)
                (source_logout_request_pipeline inflate read_from_bytes rt_ok dsig cfg now enc)).
Qed.
Print Assumptions C10_source_logout_pipelines_are_the_model.
