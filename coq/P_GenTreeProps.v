(* P_GenTreeProps.v — the tree-level theorems of C01 C02 C03 C04 C10 restated for the SOURCE TEXT of this run: hypotheses
   and conclusions speak about the translated bodies of GenTree.v (what /repo's ValidateEncodedResponse,
   ValidateEncodedLogoutResponsePOST and ValidateEncodedLogoutRequestPOST say now), through P_GenTree's equalities. *)
From V Require Import Base Time Xml Ns Types Generated Decode Profile Response Keys GenPrelude GenPreludeD GenPreludeT GenFuncs GenTree
     P_Profile P_Ns P_Response P_GenFuncs P_GenTree.

Section SourceLevel.
  Variable parse : string -> res node.
  Variable dsig : node -> dsig_result.
  Variable decrypt : node -> res node.
  Notation G_resp := (G_ValidateEncodedResponse parse dsig (decrypt_assertions decrypt)).

  Theorem source_acceptance_sound cfg now enc r :
    cfg_skip_sig cfg = false -> G_resp cfg now enc = PVal (Ok (Some r)) ->
    exists raw root, b64_decode enc = Ok raw /\ parse raw = Ok root /\ validate cfg now r = Ok tt /\
      (SignedPath dsig decrypt cfg now root r \/ UnsignedPath dsig decrypt cfg now root r).
  Proof.
    intros Hs H. apply G_ValidateEncodedResponse_accepts_iff in H. destruct H as (raw & root & A & B & C).
    exists raw, root. split; [exact A|]. split; [exact B|]. exact (response_sound dsig decrypt cfg now root r Hs C).
  Qed.

  Theorem source_bad_root_signature_fatal cfg now enc raw root :
    cfg_skip_sig cfg = false -> b64_decode enc = Ok raw -> parse raw = Ok root -> dsig root = DErr ->
    exists e, G_resp cfg now enc = PVal (Err e) /\ e <> EMissingSignature.
  Proof.
    intros Hs A B D. destruct (bad_root_signature_fatal dsig decrypt cfg now root Hs D) as (e & He & Hne).
    pose proof (G_ValidateEncodedResponse_is_model parse dsig decrypt cfg now enc) as H.
    unfold entry in H. rewrite A, B, He in H. cbn [res_some norm_res] in H.
    destruct (G_resp cfg now enc) as [[a|e1]|]; cbn in H; try discriminate.
    exists e1. split; [reflexivity|]. inversion H as [H1]. intros ->. destruct e; cbn in H1; try discriminate. contradiction.
  Qed.

  Theorem source_accepted_response_satisfies_profile cfg now enc r :
    G_resp cfg now enc = PVal (Ok (Some r)) -> ProfileOK cfg now r.
  Proof.
    intros H. apply G_ValidateEncodedResponse_accepts_iff in H. destruct H as (raw & root & A & B & C).
    apply validate_ok_iff. eapply every_path_validates; exact C.
  Qed.

  Theorem source_response_flag_iff cfg now enc r :
    cfg_skip_sig cfg = false -> G_resp cfg now enc = PVal (Ok (Some r)) ->
    exists raw root, b64_decode enc = Ok raw /\ parse raw = Ok root /\ (r_signature_validated r = true <-> exists v, dsig root = DOk v).
  Proof.
    intros Hs H. apply G_ValidateEncodedResponse_accepts_iff in H. destruct H as (raw & root & A & B & C).
    exists raw, root. split; [exact A|]. split; [exact B|]. exact (response_flag_iff dsig decrypt cfg now root r Hs C).
  Qed.

  Theorem source_skip_means_no_flag cfg now enc r :
    cfg_skip_sig cfg = true -> G_resp cfg now enc = PVal (Ok (Some r)) -> r_signature_validated r = false.
  Proof.
    intros Hs H. apply G_ValidateEncodedResponse_accepts_iff in H. destruct H as (raw & root & A & B & C).
    exact (proj1 (flags_when_skipping dsig decrypt cfg now root r Hs C)).
  Qed.

  Theorem source_logout_response_accept cfg now enc r :
    G_ValidateEncodedLogoutResponsePOST parse dsig cfg now enc = PVal (Ok (Some r)) ->
    exists raw root el flag r0, b64_decode enc = Ok raw /\ parse raw = Ok root /\
      logout_signature_step dsig cfg root = Ok (el, flag) /\ unmarshal_logout_response el = Ok r0 /\ r = lr_with_flag r0 flag /\
      LogoutResponseOK cfg r.
  Proof.
    intros H. apply G_ValidateEncodedLogoutResponsePOST_accepts_iff in H. destruct H as (raw & root & A & B & C).
    destruct (logout_response_accept dsig cfg root r C) as (el & flag & r0 & D & E & F & G).
    exists raw, root, el, flag, r0. repeat (split; [assumption|]). apply validate_logout_response_iff; exact G.
  Qed.

  Theorem source_logout_request_accept cfg now enc r :
    G_ValidateEncodedLogoutRequestPOST parse dsig cfg now enc = PVal (Ok (Some r)) ->
    exists raw root el flag r0, b64_decode enc = Ok raw /\ parse raw = Ok root /\
      logout_signature_step dsig cfg root = Ok (el, flag) /\ unmarshal_logout_request el = Ok r0 /\ r = lq_with_flag r0 flag /\
      LogoutRequestOK cfg r.
  Proof.
    intros H. apply G_ValidateEncodedLogoutRequestPOST_accepts_iff in H. destruct H as (raw & root & A & B & C).
    destruct (logout_request_accept dsig cfg root r C) as (el & flag & r0 & D & E & F & G).
    exists raw, root, el, flag, r0. repeat (split; [assumption|]). apply validate_logout_request_iff; exact G.
  Qed.
End SourceLevel.
