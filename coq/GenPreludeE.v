(* GenPreludeE.v — target combinators of the function-body translator for decryptAssertions (gen/unit_dectree.go ->
   GenDecTree.v): an NSFindIterate handler that edits the children of the element the traversal started from.
   Each definition models ONE etree operation.  Executable; no proofs of properties.

   etree facts modelled (v1.5.0): NSTraverse visits the child ELEMENTS of a snapshot taken before the handler's edits are
   visible to it (ChildElements() copies), so removing / appending children of the start element during the traversal does
   not change which elements are visited; every element is visited at most once, so when the handler runs for a direct
   child, that child has not been removed yet.  Element.RemoveChild(t) returns nil iff t's parent is not the receiver;
   Element.AddChild(t) appends t as the last child. *)
From V Require Import Base Xml Ns Decode Response GenPrelude GenPreludeT.
Local Open Scope string_scope.
Local Open Scope list_scope.

(* the edit log: indices (child-token positions in the ORIGINAL child list) removed so far, elements appended so far *)
Definition edits_empty : list nat * list node := ([], []).
(* START.RemoveChild(E) for the element E the handler was called for (identified by its path from START) *)
(* non-nil exactly when E's parent is START (GenPreludeT.parent_of: a direct child, which — being visited only once — has
   not been removed before) *)
Definition edit_remove (path : list nat) (ed : list nat * list node) : option (list nat * list node) :=
  match path with
  | [i] => Some (i :: fst ed, snd ed)
  | _ => None
  end.
(* START.AddChild(x) *)
Definition edit_add (x : node) (ed : list nat * list node) : list nat * list node := (fst ed, snd ed ++ [x]).
(* START as the caller sees it afterwards *)
Definition apply_edits (el : node) (ed : list nat * list node) : node :=
  match el with
  | Elem sp tg attrs kids => Elem sp tg attrs (remove_indices_from 0 (fst ed) kids ++ snd ed)
  | other_node => other_node
  end.

(* xmlUnmarshalElement(el, &types.EncryptedAssertion{}) : only into a struct that still has its zero value (GenPreludeT) *)
Definition enc_method_is_zero (m : enc_method) : bool := (em_algorithm m =?s "") && is_nil (em_digest m).
Definition enc_key_is_zero (k : enc_key) : bool :=
  (ek_x509 k =?s "") && (ek_cipher_value k =?s "") && enc_method_is_zero (ek_method k).
Definition enc_assertion_is_zero (a : enc_assertion) : bool :=
  enc_method_is_zero (ea_method a) && enc_key_is_zero (ea_key a) && enc_key_is_zero (ea_det_key a) && (ea_cipher_value a =?s "").
Definition unmarshal_into_enc_assertion := unmarshal_into enc_assertion_is_zero unmarshal_enc_assertion.
