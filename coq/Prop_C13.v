(* Prop_C13.v -- property C13: outgoing enveloped signatures.  ONLY theorem statements closed by [exact lemma], each
   followed by Print Assumptions.  Model: Build.v sections 5-7 (saml.go SigningContext / getSigningCert, goxmldsig
   SetSignatureMethod / getCerts / ConstructSignature, the Sign* re-assembly); lemmas: P_Build.v section 8.

   "The signature verifies": proved AT TREE LEVEL (C13_sign_verify_*, end of this file): the signed tree, fed to the model
   of goxmldsig's ValidationContext.Validate (Dsig.v), is accepted and what is returned is the re-parse of the canonical
   bytes of the message without its signature, for every canonicaliser / digest / signature / certificate / parser oracle
   satisfying the laws named in the statement.  NOT proved: the byte level in between (etree's writer followed by the
   recipient's parser reproduces the tree: C15_scan_write_tokens + the parser oracle); it is established by the
   correspondence run, which verifies every produced message with goxmldsig against exactly the certificate
   GetSigningCertBytes reports (harness c13.go), and it is FALSE when a configuration string contains U+000D (known finding
   F8, key "cr-in-config": etree writes the CR raw, the recipient's parser reads LF, the digest no longer matches). *)
From V Require Import Base Time Escape EscapeProofs Xml Ns Generated Build P_Build P_Sign.
From V Require Keys Metadata P_Keys.   (* the shared key-selection model, cited by the last theorem; names stay qualified *)
From V Require Schema Response Dsig P_SignVerify.   (* the verifier (model of goxmldsig Validate) for C13_sign_verify_*; names stay qualified *)
Local Open Scope string_scope.

(* children = Issuer :: Signature :: rest for the three message kinds, where Issuer :: rest are the children of the
   built element AS THE CONFIGURED CANONICALISER LEFT IT: goxmldsig's exclusive canonicalisers transform the element
   they are given in place (etreeutils.TransformExcC14n: attributes sorted, namespace declarations moved to where the
   prefix is visibly used), and Sign* copies the element only afterwards; pre_sign_tree gives that element in closed
   form (P_Build.exc_authn / exc_logout_request / exc_logout_response, proved equal to the model of TransformExcC14n
   for every prefix list), and it is the built element itself for the inclusive canonicalisers.  The index panic of
   the Sign* functions is characterised (exactly the childless elements) and cannot be reached from the builders:
   the only panic of the build path is the nil signer of an SP without any key. *)
Theorem C13_signature_after_issuer :
  (forall cfg k m id now crypto t,
     signing_requested cfg m = true ->
     message_doc cfg k m id now true crypto = ORet (Ok t) ->
     let c := effective_canon cfg in
     exists attrs sig rest,
       pre_sign_tree c cfg m id now = Elem "samlp" (root_tag m) attrs (signed_issuer c cfg :: rest) /\
       t = Elem "samlp" (root_tag m) attrs (signed_issuer c cfg :: sig :: rest) /\
       space_of sig = "ds" /\ tag_of sig = "Signature" /\
       select_attr_sk "xmlns" "ds" (attrs_of sig) = Some dsig_namespace) /\
  (* pre_sign_tree = the built element as the canonicaliser left it: untouched by the inclusive canonicalisers,
     the exc-c14n transformed element (same names, same values, declarations moved, attributes sorted) otherwise *)
  (forall c cfg m id now, canon_apply c (message_tree cfg m id now) = Ok (pre_sign_tree c cfg m id now)) /\
  (forall cid cfg m id now, pre_sign_tree (CanonOther cid) cfg m id now = message_tree cfg m id now) /\
  (forall c cfg, node_name (signed_issuer c cfg) = "saml:Issuer" /\ kids_of (signed_issuer c cfg) = text_kids (issuer_value cfg)) /\
  (forall el sig,
     match el with
     | Elem sp t a (c0 :: rest) => sign_placement el sig = ORet (Ok (Elem sp t a (c0 :: sig :: rest)))
     | _ => exists w, sign_placement el sig = OPanic w
     end) /\
  (forall cfg k m id now incl crypto w,
     message_doc cfg k m id now incl crypto = OPanic w -> w = "nil signer" /\ ctx_pk (signing_ctx_keys k) = None).
Proof. exact signature_placement. Qed.
Print Assumptions C13_signature_after_issuer.

(* configured SignAuthnRequestsAlgorithm -> hash actually used and SignatureMethod / DigestMethod declared;
   empty / unknown / other-key-kind identifiers leave the library default (SHA-256); the identifier of the configured
   canonicaliser, or of the default xml-c14n11, is declared both as CanonicalizationMethod and as the second Transform,
   and that canonicaliser is the one applied to the element (canon_apply) *)
Theorem C13_algorithm_table :
  (forall cfg k pk cx,
     ctx_pk (signing_ctx_keys k) = Some pk ->
     signing_context cfg k = ORet (Ok cx) ->
     cx_hash cx = effective_hash pk (b_sign_algorithm cfg) /\
     cx_canon cx = effective_canon cfg /\
     cx_keys cx = signing_ctx_keys k /\
     (forall el dv sv el' sig, construct_signature cx el (Ok (dv, sv)) = ORet (Ok (el', sig)) ->
        exists sm certs,
          canon_apply (effective_canon cfg) el = Ok el' /\
          declared_signature_method pk (cx_hash cx) = Some sm /\ ctx_certs (signing_ctx_keys k) = Ok certs /\
          sig = signature_element sm (canon_id (effective_canon cfg)) (cx_hash cx) (select_attr_value "ID" (attrs_of el')) dv sv certs)) /\
  (forall cfg, canon_id (effective_canon cfg) =
     match b_canonicalizer cfg with
     | None => "http://www.w3.org/2006/12/xml-c14n11"
     | Some (CanonExc _ false) => "http://www.w3.org/2001/10/xml-exc-c14n#"
     | Some (CanonExc _ true) => "http://www.w3.org/2001/10/xml-exc-c14n#WithComments"
     | Some (CanonOther id) => id
     end) /\
  (* the table for RSA keys (every dsig.X509KeyStore in a field, and RSA signers given to the setters) *)
  (forall alg, effective_hash PK_RSA alg =
     if alg =?s "http://www.w3.org/2000/09/xmldsig#rsa-sha1" then SHA1
     else if alg =?s "http://www.w3.org/2001/04/xmldsig-more#rsa-sha256" then SHA256
     else if alg =?s "http://www.w3.org/2001/04/xmldsig-more#rsa-sha384" then SHA384
     else if alg =?s "http://www.w3.org/2001/04/xmldsig-more#rsa-sha512" then SHA512
     else SHA256) /\
  (forall h, declared_signature_method PK_RSA h =
     Some match h with
          | SHA1 => "http://www.w3.org/2000/09/xmldsig#rsa-sha1"
          | SHA256 => "http://www.w3.org/2001/04/xmldsig-more#rsa-sha256"
          | SHA384 => "http://www.w3.org/2001/04/xmldsig-more#rsa-sha384"
          | SHA512 => "http://www.w3.org/2001/04/xmldsig-more#rsa-sha512"
          end) /\
  (forall h, digest_id h =
     match h with
     | SHA1 => "http://www.w3.org/2000/09/xmldsig#sha1"
     | SHA256 => "http://www.w3.org/2001/04/xmlenc#sha256"
     | SHA384 => "http://www.w3.org/2001/04/xmldsig-more#sha384"
     | SHA512 => "http://www.w3.org/2001/04/xmlenc#sha512"
     end) /\
  (* the signature element declares exactly these identifiers *)
  (forall sm canon h ref dv sv certs,
     let sig := signature_element sm canon h ref dv sv certs in
     exists si rest, kids_of sig = si :: rest /\ node_name si = "ds:SignedInfo" /\
       exists cm smn rf, kids_of si = [cm; smn; rf] /\
         node_name cm = "ds:CanonicalizationMethod" /\ select_attr_sk "" "Algorithm" (attrs_of cm) = Some canon /\
         node_name smn = "ds:SignatureMethod" /\ select_attr_sk "" "Algorithm" (attrs_of smn) = Some sm /\
         node_name rf = "ds:Reference" /\
         select_attr_sk "" "URI" (attrs_of rf) = Some (if ref =?s "" then "" else "#" ++ ref) /\
         exists tr dm dvn, kids_of rf = [tr; dm; dvn] /\
           child_names tr = ["ds:Transform"; "ds:Transform"] /\
           map (fun x => select_attr_sk "" "Algorithm" (attrs_of x)) (kids_of tr) = [Some enveloped_signature_id; Some canon] /\
           node_name dm = "ds:DigestMethod" /\ select_attr_sk "" "Algorithm" (attrs_of dm) = Some (digest_id h)).
Proof. exact algorithm_table_full. Qed.
Print Assumptions C13_algorithm_table.

(* whenever GetSigningCertBytes reports a certificate, the signing context embeds exactly that certificate first in
   KeyInfo/X509Data (base64 of the same bytes).  Premise: a field key store that also implements X509ChainStore hands
   out a chain starting with the certificate its GetKeyPair returns (true of dsig.TLSCertKeyStore). *)
Theorem C13_embedded_cert_is_reported_cert : forall k c,
  chain_consistent k ->
  get_signing_cert_bytes k = Ok c ->
  exists tail, ctx_certs (signing_ctx_keys k) = Ok (c :: tail) /\
    (forall sm canon h ref dv sv,
       exists si sv_el x509 rest,
         kids_of (signature_element sm canon h ref dv sv (c :: tail)) = [si; sv_el; Elem "ds" "KeyInfo" [] [Elem "ds" "X509Data" [] (x509 :: rest)]] /\
         x509 = Elem "ds" "X509Certificate" [] (text_kids (base64_encode c)) /\
         base64_decode (base64_encode c) = Some c).
Proof. exact embedded_cert_is_reported_cert. Qed.
Print Assumptions C13_embedded_cert_is_reported_cert.

(* for EVERY key configuration (the 16 present/absent combinations and any key material): the key that produces
   SignatureValue, the certificate GetSigningCertBytes reports and the one Metadata publishes all come from one slot,
   the first configured of SetSPSigningKeyStore, SPSigningKeyStore, SetSPKeyStore, SPKeyStore (repaired code, fix
   3c7c8e2).  Stated over Build.v's own model of the key choice (Build.signing_ctx_keys, get_signing_cert), which is the
   one the byte-for-byte correspondence of the signed messages exercises; the next theorem cites the same fact about
   the shared model Keys.v / Metadata.v. *)
Theorem C13_signing_key_agreement :
  (forall k,
     ctx_signing_key (signing_ctx_keys k) = option_map (res_map fst) (signing_pair k) /\
     get_signing_cert k = match signing_pair k with Some r => res_map snd r | None => Ok "" end) /\
  (forall k c,
     get_signing_cert_bytes k = Ok c ->
     exists key, signing_pair k = Some (Ok (key, c)) /\
                 ctx_signing_key (signing_ctx_keys k) = Some (Ok key) /\
                 metadata_signing_cert k = Ok (Some (base64_encode c)) /\
                 c <> "").
Proof. exact signing_key_agreement_full. Qed.
Print Assumptions C13_signing_key_agreement.

(* the same agreement over the shared key-selection / metadata model (Keys.v, Metadata.v; lemma of P_Keys.v): the
   signer that signs, the first embedded certificate, the reported certificate and the certificate published by
   Metadata / MetadataWithSLO under use="signing" coincide *)
Theorem C13_signing_key_agreement_shared_model : forall alg c s certs cert,
  Keys.signing_key_and_certs alg (Metadata.mc_keys c) = ORet (Ok (s, certs)) ->
  Keys.get_signing_cert_bytes (Metadata.mc_keys c) = Ok cert ->
  hd_error certs = Some cert
  /\ (exists sl, Keys.chosen_signing_slot (Metadata.mc_keys c) = Some sl /\
                 Keys.slot_pair (Metadata.mc_keys c) sl = Ok (Some s, cert))
  /\ (forall now h ed, Metadata.metadata c now = Ok ed \/ Metadata.metadata_with_slo c now h = Ok ed ->
                       Metadata.published Metadata.use_signing ed = [base64_encode cert]).
Proof. exact P_Keys.signing_key_agrees_with_reported_and_published. Qed.
Print Assumptions C13_signing_key_agreement_shared_model.

(* ================================================================ sign, then verify (tree level) ================================================================
   Signer: Build.construct_signature + sign_placement (= sign_element, C13_sign_verify_sign_element_steps).  Verifier:
   Dsig.dsig_validate, the model of goxmldsig v1.5.0 ValidationContext.Validate, over oracles canon / digest / sig_ok /
   parse_cert / reparse, with the store = the one certificate the SP embeds.  [sign] is the signing oracle.
   LAWS OF THE ORACLES (the first four premises): the key and the certificate are a pair (a signature made with the key
   verifies under the certificate); signatures are not empty; x509 parsing of the embedded bytes gives that certificate;
   digests are at least 20 bytes.  The parser round trip is needed at two byte strings only and is a premise at exactly
   those: the canonical SignedInfo re-parses to the tree the verifier prepared (reparse sib = Some p), the canonical
   message re-parses to v (reparse bytes = Some v).
   PREMISES about the configuration, each with a refutation below when dropped: the element is signable (shape of the
   builders' elements: C13_sign_verify_builders_signable; U+000D in the ID: C13_sign_verify_cr_in_id_refuted); the
   declared canonicaliser identifier is one goxmldsig's verifier knows (C13_sign_verify_unknown_canonicaliser_refuted) and
   names the canonicaliser the signer ran (exclusive canonicaliser with a prefix list: C13_sign_verify_exc_prefix_list_refuted,
   known finding exc-prefix-list); one embedded certificate, inside its validity window at the verifier's clock.
   DigestValue = base64 (digest (canonical bytes of the element as the canonicaliser left it)); SignatureValue = base64 (a
   signature over the canonical bytes of SignedInfo as the verifier prepares it: detached in the context of message +
   Signature element (si_detached), canonicalised by the algorithm CanonicalizationMethod names (si_prep)). *)
Theorem C13_sign_verify_accepts :
  forall (canon : Dsig.canon_alg -> node -> option string) (digest : string -> string -> option string)
         (sig_ok : Dsig.cert -> string -> string -> string -> bool) (parse_cert : string -> option Dsig.cert)
         (reparse : string -> option node) (sign : string -> string -> string -> string) (key der : string) (crt : Dsig.cert),
    (forall m b : string, sig_ok crt m b (sign key m b) = true) ->
    (forall m b : string, sign key m b <> "") ->
    parse_cert der = Some crt ->
    (forall alg b d : string, digest alg b = Some d -> (20 <= String.length d)%nat) ->
    forall (cx : sign_ctx) (el : node) (dv sv : string) (el' sg signed : node) (now : instant) (sm bytes d : string)
           (det : node) (sa : Dsig.canon_alg) (p : node) (sib : string) (v : node),
      construct_signature cx el (Ok (dv, sv)) = ORet (Ok (el', sg)) ->
      sign_placement el' sg = ORet (Ok signed) ->
      P_SignVerify.signable el' = true ->
      In (canon_id (cx_canon cx)) P_SignVerify.c14n_ids ->
      P_SignVerify.signer_alg (cx_canon cx) = P_SignVerify.alg_of_id (canon_id (cx_canon cx)) ->
      ctx_certs (cx_keys cx) = Ok [der] -> der <> "" ->
      ctx_signing_key (cx_keys cx) = Some (Ok key) ->
      Dsig.cert_valid_at crt now = true ->
      canon (P_SignVerify.signer_alg (cx_canon cx)) el' = Some bytes ->
      digest (digest_id (cx_hash cx)) bytes = Some d ->
      dv = base64_encode d ->
      P_SignVerify.declared_method cx = Some sm ->
      P_SignVerify.si_detached el' sg = Ok det ->
      Dsig.si_prep (canon_id (cx_canon cx)) det = Ok (sa, p) ->
      canon sa det = Some sib ->
      reparse sib = Some p ->
      sv = base64_encode (sign key sm sib) ->
      reparse bytes = Some v ->
      Dsig.dsig_validate canon digest sig_ok parse_cert reparse [crt] now signed = Response.DOk v.
Proof. exact P_SignVerify.signed_message_verifies. Qed.
Print Assumptions C13_sign_verify_accepts.

(* the same for ANY DigestValue text base64(want): accepted exactly when [want] is the digest of the canonical message *)
Theorem C13_sign_verify_digest_decides :
  forall (canon : Dsig.canon_alg -> node -> option string) (digest : string -> string -> option string)
         (sig_ok : Dsig.cert -> string -> string -> string -> bool) (parse_cert : string -> option Dsig.cert)
         (reparse : string -> option node) (sign : string -> string -> string -> string) (key der : string) (crt : Dsig.cert),
    (forall m b : string, sig_ok crt m b (sign key m b) = true) ->
    (forall m b : string, sign key m b <> "") ->
    parse_cert der = Some crt ->
    (forall alg b d : string, digest alg b = Some d -> (20 <= String.length d)%nat) ->
    forall (cx : sign_ctx) (el : node) (dv sv : string) (el' sg signed : node) (now : instant) (sm bytes d want : string)
           (det : node) (sa : Dsig.canon_alg) (p : node) (sib : string) (v : node),
      construct_signature cx el (Ok (dv, sv)) = ORet (Ok (el', sg)) ->
      sign_placement el' sg = ORet (Ok signed) ->
      P_SignVerify.signable el' = true ->
      In (canon_id (cx_canon cx)) P_SignVerify.c14n_ids ->
      P_SignVerify.signer_alg (cx_canon cx) = P_SignVerify.alg_of_id (canon_id (cx_canon cx)) ->
      ctx_certs (cx_keys cx) = Ok [der] -> der <> "" ->
      ctx_signing_key (cx_keys cx) = Some (Ok key) ->
      Dsig.cert_valid_at crt now = true ->
      canon (P_SignVerify.signer_alg (cx_canon cx)) el' = Some bytes ->
      digest (digest_id (cx_hash cx)) bytes = Some d ->
      dv = base64_encode want -> want <> "" ->
      P_SignVerify.declared_method cx = Some sm ->
      P_SignVerify.si_detached el' sg = Ok det ->
      Dsig.si_prep (canon_id (cx_canon cx)) det = Ok (sa, p) ->
      canon sa det = Some sib ->
      reparse sib = Some p ->
      sv = base64_encode (sign key sm sib) ->
      reparse bytes = Some v ->
      Dsig.dsig_validate canon digest sig_ok parse_cert reparse [crt] now signed =
      (if d =?s want then Response.DOk v else Response.DErr).
Proof. exact P_SignVerify.signed_message_outcome. Qed.
Print Assumptions C13_sign_verify_digest_decides.

(* (b) negative direction: a DigestValue that is the digest of anything else (a tampered element) is never accepted *)
Theorem C13_sign_verify_tampered_digest_rejected :
  forall (canon : Dsig.canon_alg -> node -> option string) (digest : string -> string -> option string)
         (sig_ok : Dsig.cert -> string -> string -> string -> bool) (parse_cert : string -> option Dsig.cert)
         (reparse : string -> option node) (sign : string -> string -> string -> string) (key der : string) (crt : Dsig.cert),
    (forall m b : string, sig_ok crt m b (sign key m b) = true) ->
    (forall m b : string, sign key m b <> "") ->
    parse_cert der = Some crt ->
    (forall alg b d : string, digest alg b = Some d -> (20 <= String.length d)%nat) ->
    forall (cx : sign_ctx) (el : node) (dv sv : string) (el' sg signed : node) (now : instant) (sm bytes d want : string)
           (det : node) (sa : Dsig.canon_alg) (p : node) (sib : string) (v : node),
      construct_signature cx el (Ok (dv, sv)) = ORet (Ok (el', sg)) ->
      sign_placement el' sg = ORet (Ok signed) ->
      P_SignVerify.signable el' = true ->
      In (canon_id (cx_canon cx)) P_SignVerify.c14n_ids ->
      P_SignVerify.signer_alg (cx_canon cx) = P_SignVerify.alg_of_id (canon_id (cx_canon cx)) ->
      ctx_certs (cx_keys cx) = Ok [der] -> der <> "" ->
      ctx_signing_key (cx_keys cx) = Some (Ok key) ->
      Dsig.cert_valid_at crt now = true ->
      canon (P_SignVerify.signer_alg (cx_canon cx)) el' = Some bytes ->
      digest (digest_id (cx_hash cx)) bytes = Some d ->
      dv = base64_encode want -> want <> "" -> d <> want ->
      P_SignVerify.declared_method cx = Some sm ->
      P_SignVerify.si_detached el' sg = Ok det ->
      Dsig.si_prep (canon_id (cx_canon cx)) det = Ok (sa, p) ->
      canon sa det = Some sib ->
      reparse sib = Some p ->
      sv = base64_encode (sign key sm sib) ->
      reparse bytes = Some v ->
      Dsig.dsig_validate canon digest sig_ok parse_cert reparse [crt] now signed = Response.DErr.
Proof. exact P_SignVerify.tampered_digest_rejected. Qed.
Print Assumptions C13_sign_verify_tampered_digest_rejected.

(* (a) "declares and actually uses": what the verifier reads back from the signed element (findSignature + NSUnmarshalElement)
   is the configured canonicaliser identifier (CanonicalizationMethod and second Transform) and signature method, the digest
   method of the configured hash; and the transform it then applies yields exactly the element the signer canonicalised,
   under the canonicaliser that identifier names *)
Theorem C13_sign_verify_reads_declared :
  forall (cx : sign_ctx) (el : node) (dv sv : string) (el' sg signed : node) (sm der : string),
    construct_signature cx el (Ok (dv, sv)) = ORet (Ok (el', sg)) ->
    sign_placement el' sg = ORet (Ok signed) ->
    P_SignVerify.signable el' = true ->
    In (canon_id (cx_canon cx)) P_SignVerify.c14n_ids ->
    ctx_certs (cx_keys cx) = Ok [der] -> der <> "" -> dv <> "" -> sv <> "" ->
    P_SignVerify.declared_method cx = Some sm ->
    exists (root' : node) (f : Dsig.found_sig) (sinfo : Dsig.signed_info) (r : Dsig.reference),
      Dsig.find_signature signed = Ok (root', f) /\
      Dsig.fs_path f = [1%nat] /\
      Dsig.sg_signed_info (Dsig.fs_sig f) = Some sinfo /\
      Dsig.si_c14n_alg sinfo = canon_id (cx_canon cx) /\
      Dsig.si_sig_alg sinfo = sm /\
      Dsig.si_refs sinfo = [r] /\
      Dsig.ref_digest_alg r = digest_id (cx_hash cx) /\
      Dsig.ref_transforms r =
        [{| Dsig.tr_alg := Dsig.alg_enveloped; Dsig.tr_prefix_list := None |};
         {| Dsig.tr_alg := canon_id (cx_canon cx); Dsig.tr_prefix_list := None |}] /\
      Dsig.transform root' (Dsig.fs_path f) r = Ok (el', P_SignVerify.alg_of_id (canon_id (cx_canon cx))).
Proof. exact P_SignVerify.verifier_reads_declared. Qed.
Print Assumptions C13_sign_verify_reads_declared.

(* the three builders' elements, as ANY configured canonicaliser (any prefix list) leaves them, are signable, for every
   configuration and instant and every request id free of U+000D (uuid.NewV4().String() is) *)
Theorem C13_sign_verify_builders_signable :
  (forall (c : canon) (cfg : bcfg) (id : string) (now : instant) (nid sidx st rq : string),
     Schema.cr_normalise id = id ->
     (forall el' : node, canon_apply c (build_authn_request cfg id now) = Ok el' -> P_SignVerify.signable el' = true) /\
     (forall el' : node, canon_apply c (build_logout_request cfg id now nid sidx) = Ok el' -> P_SignVerify.signable el' = true) /\
     (forall el' : node, canon_apply c (build_logout_response cfg id now st rq) = Ok el' -> P_SignVerify.signable el' = true)) /\
  (forall (c : canon) (cfg : bcfg) (m : message) (id : string) (now : instant),
     Schema.cr_normalise id = id -> P_SignVerify.signable (pre_sign_tree c cfg m id now) = true).
Proof. exact (conj P_SignVerify.built_elements_signable P_SignVerify.builders_signable). Qed.
Print Assumptions C13_sign_verify_builders_signable.

(* the two SignedInfo questions of C13_sign_verify_accepts are defined for every signed signable element *)
Theorem C13_sign_verify_signed_info_defined :
  forall (cx : sign_ctx) (el : node) (dv sv : string) (el' sg signed : node) (sm der : string),
    construct_signature cx el (Ok (dv, sv)) = ORet (Ok (el', sg)) ->
    sign_placement el' sg = ORet (Ok signed) ->
    P_SignVerify.signable el' = true ->
    In (canon_id (cx_canon cx)) P_SignVerify.c14n_ids ->
    ctx_certs (cx_keys cx) = Ok [der] -> der <> "" -> dv <> "" -> sv <> "" ->
    P_SignVerify.declared_method cx = Some sm ->
    exists (det : node) (sa : Dsig.canon_alg) (p : node),
      P_SignVerify.si_detached el' sg = Ok det /\
      tag_of det = "SignedInfo" /\ Dsig.si_prep (canon_id (cx_canon cx)) det = Ok (sa, p).
Proof. exact P_SignVerify.signed_info_query_defined. Qed.
Print Assumptions C13_sign_verify_signed_info_defined.

(* Sign{AuthnRequest,LogoutRequest,LogoutResponse} = SigningContext, ConstructSignature, re-assembly *)
Theorem C13_sign_verify_sign_element_steps :
  forall (cfg : bcfg) (k : keycfg) (el : node) (crypto : res (string * string)) (signed : node),
    sign_element cfg k el crypto = ORet (Ok signed) ->
    exists (cx : sign_ctx) (el' sg : node),
      signing_context cfg k = ORet (Ok cx) /\
      construct_signature cx el crypto = ORet (Ok (el', sg)) /\ sign_placement el' sg = ORet (Ok signed).
Proof. exact P_SignVerify.sign_element_inv. Qed.
Print Assumptions C13_sign_verify_sign_element_steps.

(* non-vacuity: function oracles (P_SignVerify.SVExample) satisfying the four laws; an AuthnRequest built by
   build_authn_request, signed by the honest signer (honest: DigestValue and SignatureValue computed from the oracles), is
   accepted and the verified element is the built element -- obtained BY APPLYING C13_sign_verify_accepts (every law and
   premise discharged), and also by evaluation for c14n 1.1, exc-c14n and c14n 1.0 with comments *)
Theorem C13_sign_verify_nonvacuous :
  (P_SignVerify.SVExample.honest None "id-1" = Some P_SignVerify.SVExample.r1 /\
   P_SignVerify.SVExample.verify P_SignVerify.SVExample.r1 =
   Response.DOk (P_SignVerify.SVExample.r_el' P_SignVerify.SVExample.r1)) /\
  P_SignVerify.SVExample.is_ok_of (P_SignVerify.SVExample.outcome None "id-1") = true /\
  P_SignVerify.SVExample.is_ok_of (P_SignVerify.SVExample.outcome (Some (CanonExc [] false)) "id-1") = true /\
  P_SignVerify.SVExample.is_ok_of (P_SignVerify.SVExample.outcome (Some (CanonOther Dsig.alg_rec_wc)) "id-1") = true.
Proof.
  exact (conj P_SignVerify.SVExample.accepted_by_theorem
        (conj P_SignVerify.SVExample.accepted_c11 (conj P_SignVerify.SVExample.accepted_exc P_SignVerify.SVExample.accepted_rec_with_comments))).
Qed.
Print Assumptions C13_sign_verify_nonvacuous.

(* the premise "the declared identifier names the canonicaliser the signer ran" cannot be dropped: exclusive canonicaliser
   built with the prefix list "saml" (known finding exc-prefix-list): signed honestly, every other premise holds, REJECTED *)
Theorem C13_sign_verify_exc_prefix_list_refuted :
  exists r : P_SignVerify.SVExample.run,
    P_SignVerify.SVExample.honest (Some (CanonExc ["saml"] false)) "id-1" = Some r /\
    P_SignVerify.signable (P_SignVerify.SVExample.r_el' r) = true /\
    P_SignVerify.signer_alg (CanonExc ["saml"] false) <> P_SignVerify.alg_of_id (canon_id (CanonExc ["saml"] false)) /\
    P_SignVerify.SVExample.verify r = Response.DErr.
Proof. exact P_SignVerify.SVExample.exc_prefix_list_refuted. Qed.
Print Assumptions C13_sign_verify_exc_prefix_list_refuted.

(* signable cannot be dropped: an ID containing U+000D -- the verifier reports a MISSING signature (the Reference URI it
   reads has LF) *)
Theorem C13_sign_verify_cr_in_id_refuted :
  exists r : P_SignVerify.SVExample.run,
    P_SignVerify.SVExample.honest None P_SignVerify.SVExample.cr_id = Some r /\
    P_SignVerify.signable (P_SignVerify.SVExample.r_el' r) = false /\ P_SignVerify.SVExample.verify r = Response.DMissing.
Proof. exact P_SignVerify.SVExample.cr_in_id_refuted. Qed.
Print Assumptions C13_sign_verify_cr_in_id_refuted.

(* a canonicaliser whose identifier goxmldsig's verifier does not know: findSignature fails before any oracle is asked *)
Theorem C13_sign_verify_unknown_canonicaliser_refuted :
  sign_element P_SignVerify.SVExample.cfg_u P_SignVerify.SVExample.keys0
    (build_authn_request P_SignVerify.SVExample.cfg_u "id-1" P_SignVerify.SVExample.t_now) (Ok ("ZHY=", "eA==")) =
  ORet (Ok P_SignVerify.SVExample.signed_u) /\
  Dsig.find_signature P_SignVerify.SVExample.signed_u = Err (EOther "invalid-c14n-method").
Proof. exact P_SignVerify.SVExample.unknown_canonicaliser_refuted. Qed.
Print Assumptions C13_sign_verify_unknown_canonicaliser_refuted.

(* ================================================================ the signer's own DigestValue / SignatureValue (Signer.v)
   Signer.signer_crypto is goxmldsig's ConstructSignature(el, true) as far as the two cryptographic texts go: DigestValue =
   base64 (digest (canonical bytes of the element)), the SignedInfo element, NSDetatch'ed in the context default + el +
   <ds:Signature xmlns:ds> (pushed ONCE; the verifier pushes it twice), canonicalised by the context's canonicaliser object
   (the exclusive ones with their prefix list), hashed and signed.  Canonicaliser = Canon.canon_model; digest and sign are
   oracles.  The correspondence run (case sets C13_modelledNN) evaluates it against the real library: digest and signature
   tables captured from the real run, message bytes equal byte for byte. *)
From V Require Canon Signer P_Signer.

(* (a) for every signable element, signing context whose canonicaliser identifier goxmldsig's verifier knows and names the
   canonicaliser object the signer runs, one embedded certificate, ANY DigestValue / SignatureValue texts (non-empty): the
   canonical SignedInfo bytes the signer signs (Signer.signer_si_bytes: its own NSDetatch + Canonicalize) are the bytes the
   verifier recomputes (Dsig.canonical_signed_info on what findSignature leaves behind), canonicalisers = Canon.canon_model.
   Covers c14n 1.1 / c14n 1.0 (which the verifier prepares as c14n 1.1) / exclusive without prefix list, each with and
   without comments, and the declaration sets samlp+saml, saml+samlp, samlp of P_SignVerify.signable. *)
Theorem C13_signer_signs_what_verifier_checks :
  forall (cx : sign_ctx) (el : node) (dv sv : string) (el' sg signed : node) (sm der : string),
    construct_signature cx el (Ok (dv, sv)) = ORet (Ok (el', sg)) ->
    sign_placement el' sg = ORet (Ok signed) ->
    P_SignVerify.signable el' = true ->
    In (canon_id (cx_canon cx)) P_SignVerify.c14n_ids ->
    Signer.canon_alg_of (cx_canon cx) = Signer.id_alg (canon_id (cx_canon cx)) ->
    ctx_certs (cx_keys cx) = Ok [der] -> der <> "" -> dv <> "" -> sv <> "" ->
    P_SignVerify.declared_method cx = Some sm ->
    exists (root' : node) (f : Dsig.found_sig) (sib : string),
      Dsig.find_signature signed = Ok (root', f) /\
      Signer.signer_si_bytes Canon.canon_model cx sm el' dv = Ok sib /\
      Dsig.canonical_signed_info Canon.canon_model root' f = Ok sib.
Proof. exact P_Signer.signer_signs_what_verifier_checks. Qed.
Print Assumptions C13_signer_signs_what_verifier_checks.

(* (a) by evaluation on a built AuthnRequest signed by the modelled signer, per canonicaliser; a prefix list that names no
   prefix in scope ("xs") changes nothing *)
Theorem C13_signer_signs_what_verifier_checks_examples :
  P_Signer.SignerExample.same_si None = true /\ P_Signer.SignerExample.same_si (Some (CanonExc [] false)) = true /\
  P_Signer.SignerExample.same_si (Some (CanonExc [] true)) = true /\
  P_Signer.SignerExample.same_si (Some (CanonOther Dsig.alg_rec)) = true /\
  P_Signer.SignerExample.same_si (Some (CanonOther Dsig.alg_c11_wc)) = true /\
  P_Signer.SignerExample.same_si (Some (CanonExc ["xs"] false)) = true.
Proof. exact P_Signer.SignerExample.signer_signs_what_verifier_checks_examples. Qed.
Print Assumptions C13_signer_signs_what_verifier_checks_examples.

(* the digest input of an exclusive canonicaliser: Canonicalize REWRITES the element and serialises it; the model asks
   canon_model about the rewritten element el' (a second transformation).  On a built AuthnRequest, for four exclusive
   configurations: the second transformation is the identity and the digest input is c14n_write el' (on every case of the
   correspondence run the digest input is compared with the bytes the library hashed) *)
Theorem C13_digest_input_exclusive_rewrite_idempotent_examples :
  P_Signer.SignerExample.rewrite_idempotent (Some (CanonExc [] false)) = true /\
  P_Signer.SignerExample.rewrite_idempotent (Some (CanonExc [] true)) = true /\
  P_Signer.SignerExample.rewrite_idempotent (Some (CanonExc ["saml"] false)) = true /\
  P_Signer.SignerExample.rewrite_idempotent (Some (CanonExc ["saml"; "xs"] true)) = true.
Proof. exact P_Signer.SignerExample.exclusive_rewrite_is_idempotent_examples. Qed.
Print Assumptions C13_digest_input_exclusive_rewrite_idempotent_examples.

(* (a) is FALSE without "the identifier names the canonicaliser object": exclusive canonicaliser built with the prefix list
   "saml" (known finding exc-prefix-list).  The signer keeps xmlns:saml on the detached ds:SignedInfo, the verifier drops
   it: other bytes; the message signed by the modelled signer is rejected *)
Theorem C13_signer_signs_what_verifier_checks_exc_prefix_list_refuted :
  exists (r : P_Signer.SignerExample.mrun) (root' : node) (f : Dsig.found_sig) (sib_signer sib_verifier : string),
    P_Signer.SignerExample.mhonest (Some (CanonExc ["saml"] false)) "id-1" = Some r /\
    P_SignVerify.signable (P_Signer.SignerExample.m_el' r) = true /\
    In (canon_id (cx_canon (P_Signer.SignerExample.m_cx r))) P_SignVerify.c14n_ids /\
    Signer.canon_alg_of (cx_canon (P_Signer.SignerExample.m_cx r)) <> Signer.id_alg (canon_id (cx_canon (P_Signer.SignerExample.m_cx r))) /\
    Dsig.find_signature (P_Signer.SignerExample.m_signed r) = Ok (root', f) /\
    Signer.signer_si_bytes Canon.canon_model (P_Signer.SignerExample.m_cx r) (P_Signer.SignerExample.m_sm r)
      (P_Signer.SignerExample.m_el' r) (base64_encode (P_Signer.SignerExample.m_d r)) = Ok sib_signer /\
    Dsig.canonical_signed_info Canon.canon_model root' f = Ok sib_verifier /\
    (sib_signer =? sib_verifier)%string = false /\
    P_Signer.SignerExample.mverify r = Response.DErr.
Proof. exact P_Signer.SignerExample.exc_prefix_list_signs_other_bytes_refuted. Qed.
Print Assumptions C13_signer_signs_what_verifier_checks_exc_prefix_list_refuted.

(* (b) C13_sign_verify_accepts with canon := Canon.canon_model and the crypto pair := Signer.signer_crypto: the message
   signed by the MODELLED signer is accepted by the model of goxmldsig's Validate.  First four premises: the laws of the
   oracles (as in C13_sign_verify_accepts).  The premise "SignatureValue is over the verifier's SignedInfo bytes" is gone
   (it is C13_signer_signs_what_verifier_checks).  [sm bytes d p] only NAME what the signer computed (the declared
   SignatureMethod, the digest input, its digest, the SignedInfo tree its canonicaliser prepared: always defined when
   ConstructSignature succeeds); the parser round trip stays a premise at exactly two byte strings: the canonical
   SignedInfo (c14n_write p) re-parses to p, the canonical message re-parses to v. *)
Theorem C13_sign_verify_accepts_modelled :
  forall (digest : string -> string -> option string) (sig_ok : Dsig.cert -> string -> string -> string -> bool)
         (parse_cert : string -> option Dsig.cert) (reparse : string -> option node)
         (sign : string -> string -> string -> string) (key der : string) (crt : Dsig.cert),
    (forall m b : string, sig_ok crt m b (sign key m b) = true) ->
    (forall m b : string, sign key m b <> "") ->
    parse_cert der = Some crt ->
    (forall alg b d : string, digest alg b = Some d -> (20 <= String.length d)%nat) ->
    forall (cx : sign_ctx) (el el' sg signed : node) (now : instant) (sm bytes d : string) (p v : node),
      Signer.construct_signature_modelled Canon.canon_model digest sign cx el = ORet (Ok (el', sg)) ->
      sign_placement el' sg = ORet (Ok signed) ->
      P_SignVerify.signable el' = true ->
      In (canon_id (cx_canon cx)) P_SignVerify.c14n_ids ->
      Signer.canon_alg_of (cx_canon cx) = Signer.id_alg (canon_id (cx_canon cx)) ->
      ctx_certs (cx_keys cx) = Ok [der] -> der <> "" ->
      ctx_signing_key (cx_keys cx) = Some (Ok key) ->
      Dsig.cert_valid_at crt now = true ->
      P_SignVerify.declared_method cx = Some sm ->
      Signer.signer_digest_input Canon.canon_model cx el' = Some bytes ->
      digest (digest_id (cx_hash cx)) bytes = Some d ->
      P_Signer.signer_si_prepared cx sm el' (base64_encode d) = Ok p ->
      reparse (Canon.c14n_write p) = Some p ->
      reparse bytes = Some v ->
      Dsig.dsig_validate Canon.canon_model digest sig_ok parse_cert reparse [crt] now signed = Response.DOk v.
Proof. exact P_Signer.sign_verify_accepts_modelled. Qed.
Print Assumptions C13_sign_verify_accepts_modelled.

(* Sign{AuthnRequest,LogoutRequest,LogoutResponse} with the modelled signer = SigningContext, ConstructSignature with the
   modelled pair, re-assembly: (a) and (b) apply to its result *)
Theorem C13_sign_verify_sign_element_modelled_steps :
  forall (canon : Dsig.canon_alg -> node -> option string) (digest : string -> string -> option string)
         (sign : string -> string -> string -> string) (cfg : bcfg) (k : keycfg) (el signed : node),
    Signer.sign_element_modelled canon digest sign cfg k el = ORet (Ok signed) ->
    exists (cx : sign_ctx) (el' sg : node),
      signing_context cfg k = ORet (Ok cx) /\
      Signer.construct_signature_modelled canon digest sign cx el = ORet (Ok (el', sg)) /\
      sign_placement el' sg = ORet (Ok signed).
Proof. exact P_Signer.sign_element_modelled_inv. Qed.
Print Assumptions C13_sign_verify_sign_element_modelled_steps.

(* non-vacuity of (b): function oracles satisfying the four laws (P_SignVerify.SVExample), canonicaliser = canon_model; a
   built AuthnRequest signed by Signer.construct_signature_modelled is accepted, the verified element being the built one:
   BY APPLYING the theorem (every premise discharged), and by evaluation for c14n 1.1, exc-c14n with and without comments,
   c14n 1.0 with and without comments; sign_element_modelled returns that very tree *)
Theorem C13_sign_verify_accepts_modelled_nonvacuous :
  (P_Signer.SignerExample.mhonest None "id-1" = Some P_Signer.SignerExample.m1 /\
   P_Signer.SignerExample.mverify P_Signer.SignerExample.m1 = Response.DOk (P_Signer.SignerExample.m_el' P_Signer.SignerExample.m1)) /\
  P_SignVerify.SVExample.is_ok_of (P_Signer.SignerExample.moutcome None "id-1") = true /\
  P_SignVerify.SVExample.is_ok_of (P_Signer.SignerExample.moutcome (Some (CanonExc [] false)) "id-1") = true /\
  P_SignVerify.SVExample.is_ok_of (P_Signer.SignerExample.moutcome (Some (CanonExc [] true)) "id-1") = true /\
  P_SignVerify.SVExample.is_ok_of (P_Signer.SignerExample.moutcome (Some (CanonOther Dsig.alg_rec)) "id-1") = true /\
  P_SignVerify.SVExample.is_ok_of (P_Signer.SignerExample.moutcome (Some (CanonOther Dsig.alg_rec_wc)) "id-1") = true /\
  match P_Signer.SignerExample.mhonest None "id-1" with
  | Some r => Signer.sign_element_modelled Canon.canon_model P_SignVerify.SVExample.t_digest P_SignVerify.SVExample.t_sign
                (P_SignVerify.SVExample.cfg0 None) P_SignVerify.SVExample.keys0 (P_Signer.SignerExample.m_el r)
              = ORet (Ok (P_Signer.SignerExample.m_signed r))
  | None => False
  end.
Proof.
  exact (conj P_Signer.SignerExample.modelled_accepted_by_theorem
        (conj P_Signer.SignerExample.modelled_accepted_c11 (conj P_Signer.SignerExample.modelled_accepted_exc
        (conj P_Signer.SignerExample.modelled_accepted_exc_comments (conj P_Signer.SignerExample.modelled_accepted_rec
        (conj P_Signer.SignerExample.modelled_accepted_rec_with_comments P_Signer.SignerExample.modelled_sign_element)))))).
Qed.
Print Assumptions C13_sign_verify_accepts_modelled_nonvacuous.

(* (c) DigestValue is base64 (digest (the canonicaliser's bytes for the WHOLE element handed to the signer, as the
   canonicaliser left it)) -- the Signature is inserted afterwards, and is what the verifier's enveloped-signature transform
   removes again (C13_sign_verify_reads_declared: transform yields exactly el') -- for every oracle; and elements with
   different canonical bytes have different digest inputs *)
Theorem C13_digest_covers_whole_message :
  forall (canon : Dsig.canon_alg -> node -> option string) (digest : string -> string -> option string)
         (sign : string -> string -> string -> string) (cx : sign_ctx),
    (forall (el' : node) (dv sv : string),
       Signer.signer_crypto canon digest sign cx el' = Ok (dv, sv) ->
       exists bytes d : string,
         Signer.signer_digest_input canon cx el' = Some bytes /\
         canon (Signer.canon_alg_of (cx_canon cx)) el' = Some bytes /\
         digest (digest_id (cx_hash cx)) bytes = Some d /\ dv = base64_encode d) /\
    (forall (e1 e2 : node) (b1 b2 : string),
       Signer.signer_digest_input canon cx e1 = Some b1 -> Signer.signer_digest_input canon cx e2 = Some b2 ->
       canon (Signer.canon_alg_of (cx_canon cx)) e1 <> canon (Signer.canon_alg_of (cx_canon cx)) e2 -> b1 <> b2).
Proof.
  exact (fun canon digest sign cx =>
           conj (P_Signer.digest_value_covers_whole_element canon digest sign cx) (P_Signer.digest_input_differs canon cx)).
Qed.
Print Assumptions C13_digest_covers_whole_message.

(* (c), the non-trivial direction, PARTIAL: the digest input (canon_model) determines every attribute value and every
   character-data token.  Stated on the trees the canonicaliser PREPARED (Canon.canon_prep: attributes sorted, declarations
   dropped / moved, comments dropped; that it never alters a value is not proved here): two messages whose prepared trees have
   the same shape (P_Signer.same_shape: element names, attribute names, kinds of tokens; comments / processing instructions /
   directives equal), whose values are XML text and whose character-data tokens are not adjacent (P_Signer.plain_values),
   and whose digest inputs are EQUAL, are equal in every attribute value and text.  (Escape injectivity: P_Canon.) *)
Theorem C13_digest_input_determines_values_partial :
  forall (cx : sign_ctx) (e1 e2 p1 p2 : node),
    Canon.canon_prep (Signer.canon_alg_of (cx_canon cx)) e1 = Some p1 ->
    Canon.canon_prep (Signer.canon_alg_of (cx_canon cx)) e2 = Some p2 ->
    P_Signer.same_shape p1 p2 -> P_Signer.plain_values p1 = true -> P_Signer.plain_values p2 = true ->
    Signer.signer_digest_input Canon.canon_model cx e1 = Signer.signer_digest_input Canon.canon_model cx e2 ->
    p1 = p2.
Proof. exact P_Signer.digest_input_determines_values_partial. Qed.
Print Assumptions C13_digest_input_determines_values_partial.

(* the canonical serialisation itself is injective on trees of one shape *)
Theorem C13_digest_canonical_bytes_determine_values :
  forall n m : node,
    P_Signer.same_shape n m -> P_Signer.plain_values n = true -> P_Signer.plain_values m = true ->
    Canon.c14n_write n = Canon.c14n_write m -> n = m.
Proof. exact P_Signer.c14n_write_determines_values. Qed.
Print Assumptions C13_digest_canonical_bytes_determine_values.

(* examples for (c): the DigestValue of the accepted run is base64 (digest (canon_model of the whole element)); two
   AuthnRequests differing in ONE character of AssertionConsumerServiceURL satisfy every premise of the partial theorem
   except equality, and have different digest inputs *)
Theorem C13_digest_covers_whole_message_examples :
  (exists sv : string,
     Signer.signer_crypto Canon.canon_model P_SignVerify.SVExample.t_digest P_SignVerify.SVExample.t_sign
       (P_Signer.SignerExample.m_cx P_Signer.SignerExample.m1) (P_Signer.SignerExample.m_el' P_Signer.SignerExample.m1)
     = Ok (base64_encode (P_Signer.SignerExample.m_d P_Signer.SignerExample.m1), sv) /\
     Canon.canon_model (Signer.canon_alg_of (cx_canon (P_Signer.SignerExample.m_cx P_Signer.SignerExample.m1)))
       (P_Signer.SignerExample.m_el' P_Signer.SignerExample.m1) = Some (P_Signer.SignerExample.m_bytes P_Signer.SignerExample.m1) /\
     P_SignVerify.SVExample.t_digest (digest_id (cx_hash (P_Signer.SignerExample.m_cx P_Signer.SignerExample.m1)))
       (P_Signer.SignerExample.m_bytes P_Signer.SignerExample.m1) = Some (P_Signer.SignerExample.m_d P_Signer.SignerExample.m1)) /\
  (exists p1 p2 : node,
     Canon.canon_prep (Signer.canon_alg_of (cx_canon P_Signer.DigestExample.cx0)) P_Signer.DigestExample.el_a = Some p1 /\
     Canon.canon_prep (Signer.canon_alg_of (cx_canon P_Signer.DigestExample.cx0)) P_Signer.DigestExample.el_b = Some p2 /\
     P_Signer.same_shape p1 p2 /\ P_Signer.plain_values p1 = true /\ P_Signer.plain_values p2 = true /\ p1 <> p2 /\
     Signer.signer_digest_input Canon.canon_model P_Signer.DigestExample.cx0 P_Signer.DigestExample.el_a <>
     Signer.signer_digest_input Canon.canon_model P_Signer.DigestExample.cx0 P_Signer.DigestExample.el_b).
Proof. exact (conj P_Signer.DigestExample.digest_value_of_m1 P_Signer.DigestExample.one_character_changes_digest_input). Qed.
Print Assumptions C13_digest_covers_whole_message_examples.

(* ---- which key signs: getSignerCert / getSigningCert as translated from /repo's saml.go on this run ---- *)
From V Require Import Keys GenPrelude GenFuncs P_GenKeys.
Theorem C13_source_signer_selection_is_the_model : forall c now,
  G_getSignerCert c now = PVal (get_signer_cert c) /\ G_getSigningCert c now = PVal (get_signing_cert c).
Proof. intros c now. exact (conj (G_getSignerCert_eq c now) (G_getSigningCert_eq c now)). Qed.
Print Assumptions C13_source_signer_selection_is_the_model.

(* source tie: the element handed to the signing step by the TRANSLATED builders of this run is the model's element, and the
   signed element is what the builder returns (nothing is added after signing); signing happens iff requested *)
From V Require Import GenPrelude GenPreludeB GenBuild P_GenBuild.
Theorem C13_source_builders_sign_the_model_element : forall (sign_el : node -> res node) cfg now id incl name_id session_index status_code req_id,
  G_buildAuthnRequest sign_el cfg now incl id
    = PVal (built sign_el (b_sign_authn_requests cfg && incl) (build_authn_request cfg id now)) /\
  G_buildLogoutRequest sign_el cfg now incl name_id session_index id
    = PVal (built sign_el incl (build_logout_request cfg id now name_id session_index)) /\
  G_buildLogoutResponse sign_el cfg now status_code req_id incl id
    = PVal (built sign_el incl (build_logout_response cfg id now status_code req_id)).
Proof.
  exact (fun s cfg now id incl n si sc rq => conj (G_buildAuthnRequest_is_model s cfg now incl id)
          (conj (G_buildLogoutRequest_is_model s cfg now incl n si id) (G_buildLogoutResponse_is_model s cfg now sc rq incl id))).
Qed.
Print Assumptions C13_source_builders_sign_the_model_element.

(* "... and publishes in its metadata": Metadata() / MetadataWithSLO() as translated from /repo on this run are the model
   functions whose published signing certificate P_Keys.signing_key_agrees_with_reported_and_published is about *)
From V Require Import Time GenPreludeMeta GenMeta P_GenMeta.
Theorem C13_source_Metadata_is_the_model : forall (c : Metadata.md_config) (now : instant) (nil_of_empty : bool) (h : Z),
  G_Metadata c now nil_of_empty = PVal (res_some (Metadata.metadata c now)) /\
  G_MetadataWithSLO c now h = PVal (res_some (Metadata.metadata_with_slo c now h)).
Proof. intros c now u h. exact (conj (G_Metadata_is_model c now u) (G_MetadataWithSLO_is_model c now h)). Qed.
Print Assumptions C13_source_Metadata_is_the_model.

(* ---- the signing context and the enveloped-signing functions as translated from /repo's source on this run (GenSign.v) ----
   Section variables of the translation, universally quantified here: pk_of (goxmldsig getPublicKeyAlgorithm of a crypto.Signer),
   key_name (how Build.v names the keys of Keys.v), crypto_of (DigestValue / SignatureValue or the error of the signer),
   sign_el (the signing step of the builders, as in GenBuild.v). *)
From V Require Import GenPreludeSign GenSign P_GenSign.

(* saml.go SigningContext, for every configuration and cache state: a cached context is returned untouched; otherwise the context
   is Keys.signing_context's key choice (with its two panics: nil signer in an override, no key at all with a known method),
   Build.set_signature_method's hash and the canonicaliser override, stored in sp.signingContext and returned.  Its key part is
   Keys.signing_context_cached; on a fresh SP configured through the setters the whole context is Build.signing_context (the
   model of C13_algorithm_table); only the cache field of the receiver changes. *)
Theorem C13_source_SigningContext_is_the_model : forall pk_of key_name sp now,
  G_SigningContext pk_of sp now = signing_context_model pk_of key_name sp /\
  keys_view (G_SigningContext pk_of sp now)
    = cached_view (Keys.signing_context_cached (option_map dc_keys (sc_cache sp)) (Build.b_sign_algorithm (sc_b sp)) (sc_keys sp)) /\
  (sc_cache sp = None -> Keys.setters_wf (sc_keys sp) ->
     build_view pk_of key_name (G_SigningContext pk_of sp now)
     = outcome_view (Build.signing_context (sc_b sp) (abs_keycfg pk_of key_name (sc_keys sp)))) /\
  (forall sp' r, G_SigningContext pk_of sp now = PVal (sp', r) ->
     sc_b sp' = sc_b sp /\ sc_keys sp' = sc_keys sp /\ sc_cache sp' = r /\ r <> None /\
     (forall d, sc_cache sp = Some d -> sp' = sp /\ r = Some d)).
Proof. exact SigningContext_tie. Qed.
Print Assumptions C13_source_SigningContext_is_the_model.

(* build_request.go SignAuthnRequest, for every receiver, element and oracle behaviour: SigningContext(), then
   Build.construct_signature on the returned context (the element is the one the canonicaliser left), then Build.sign_placement
   (Child[0], Signature, Child[1:]) on the copy.  On a fresh SP configured through the setters this is Build.sign_element.  The
   index panic of Child[0] / Child[1:] is explicit in the translation and unreachable when the element starts with an element
   child (the builders create the Issuer first: C13_signature_after_issuer) and the context has a key. *)
Theorem C13_source_SignAuthnRequest_is_the_model : forall pk_of key_name crypto_of sp now el,
  G_SignAuthnRequest pk_of key_name crypto_of sp now el = sign_model pk_of key_name crypto_of sp el /\
  (forall crypto, sc_cache sp = None -> Keys.setters_wf (sc_keys sp) -> (forall d, crypto_of d el = crypto) ->
     result_view (G_SignAuthnRequest pk_of key_name crypto_of sp now el)
     = outcome_res_view (Build.sign_element (sc_b sp) (abs_keycfg pk_of key_name (sc_keys sp)) el crypto)) /\
  (forall c0 rest sp' d,
     signing_context_model pk_of key_name sp = PVal (sp', Some d) -> dctx_pk pk_of (dc_keys d) <> None ->
     kids_of el = c0 :: rest -> is_elem c0 = true ->
     G_SignAuthnRequest pk_of key_name crypto_of sp now el <> PPanic).
Proof. exact SignAuthnRequest_tie. Qed.
Print Assumptions C13_source_SignAuthnRequest_is_the_model.

Theorem C13_source_SignLogoutRequest_is_the_model : forall pk_of key_name crypto_of sp now el,
  G_SignLogoutRequest pk_of key_name crypto_of sp now el = sign_model pk_of key_name crypto_of sp el /\
  (forall crypto, sc_cache sp = None -> Keys.setters_wf (sc_keys sp) -> (forall d, crypto_of d el = crypto) ->
     result_view (G_SignLogoutRequest pk_of key_name crypto_of sp now el)
     = outcome_res_view (Build.sign_element (sc_b sp) (abs_keycfg pk_of key_name (sc_keys sp)) el crypto)) /\
  (forall c0 rest sp' d,
     signing_context_model pk_of key_name sp = PVal (sp', Some d) -> dctx_pk pk_of (dc_keys d) <> None ->
     kids_of el = c0 :: rest -> is_elem c0 = true ->
     G_SignLogoutRequest pk_of key_name crypto_of sp now el <> PPanic).
Proof. exact SignLogoutRequest_tie. Qed.
Print Assumptions C13_source_SignLogoutRequest_is_the_model.

Theorem C13_source_SignLogoutResponse_is_the_model : forall pk_of key_name crypto_of sp now el,
  G_SignLogoutResponse pk_of key_name crypto_of sp now el = sign_model pk_of key_name crypto_of sp el /\
  (forall crypto, sc_cache sp = None -> Keys.setters_wf (sc_keys sp) -> (forall d, crypto_of d el = crypto) ->
     result_view (G_SignLogoutResponse pk_of key_name crypto_of sp now el)
     = outcome_res_view (Build.sign_element (sc_b sp) (abs_keycfg pk_of key_name (sc_keys sp)) el crypto)) /\
  (forall c0 rest sp' d,
     signing_context_model pk_of key_name sp = PVal (sp', Some d) -> dctx_pk pk_of (dc_keys d) <> None ->
     kids_of el = c0 :: rest -> is_elem c0 = true ->
     G_SignLogoutResponse pk_of key_name crypto_of sp now el <> PPanic).
Proof. exact SignLogoutResponse_tie. Qed.
Print Assumptions C13_source_SignLogoutResponse_is_the_model.

(* the public wrappers: the translated builders with includeSig fixed (true / false); BuildAuthRequest is the serialisation of the
   document BuildAuthRequestDocument returns *)
Theorem C13_source_document_wrappers_are_the_model : forall (sign_el : node -> res node) sp now id name_id session_index status req_id,
  G_BuildAuthRequestDocument sign_el sp now id
    = PVal (built sign_el (Build.b_sign_authn_requests (sc_b sp)) (Build.build_authn_request (sc_b sp) id now)) /\
  G_BuildAuthRequestDocumentNoSig sign_el sp now id = PVal (Ok (Some (Build.build_authn_request (sc_b sp) id now))) /\
  G_BuildAuthRequest sign_el sp now id
    = PVal (doc_string (built sign_el (Build.b_sign_authn_requests (sc_b sp)) (Build.build_authn_request (sc_b sp) id now))) /\
  G_BuildLogoutRequestDocument sign_el sp now name_id session_index id
    = PVal (built sign_el true (Build.build_logout_request (sc_b sp) id now name_id session_index)) /\
  G_BuildLogoutRequestDocumentNoSig sign_el sp now name_id session_index id
    = PVal (Ok (Some (Build.build_logout_request (sc_b sp) id now name_id session_index))) /\
  G_BuildLogoutResponseDocument sign_el sp now status req_id id
    = PVal (built sign_el true (Build.build_logout_response (sc_b sp) id now status req_id)) /\
  G_BuildLogoutResponseDocumentNoSig sign_el sp now status req_id id
    = PVal (Ok (Some (Build.build_logout_response (sc_b sp) id now status req_id))).
Proof. exact document_wrappers_tie. Qed.
Print Assumptions C13_source_document_wrappers_are_the_model.

(* the loop closed: when the signing step handed to the translated builders IS the translated Sign* function run on this receiver
   (fresh SP, keys set through the setters), the document returned is Build.message_doc — the model every theorem above is about —
   and the call panics exactly when the model does *)
Theorem C13_source_signed_documents_are_the_model : forall pk_of key_name crypto_of (sign_el : node -> res node) sp now id crypto,
  sc_cache sp = None -> Keys.setters_wf (sc_keys sp) ->
  (let el := Build.build_authn_request (sc_b sp) id now in
   let step := G_SignAuthnRequest pk_of key_name crypto_of sp now el in
   (forall d, crypto_of d el = crypto) ->
   match Build.message_doc (sc_b sp) (abs_keycfg pk_of key_name (sc_keys sp)) MAuthn id now true crypto with
   | OPanic _ => Build.b_sign_authn_requests (sc_b sp) = true /\ step = PPanic
   | ORet r => (Build.b_sign_authn_requests (sc_b sp) = true -> step_of step = Some (sign_el el)) ->
               G_BuildAuthRequestDocument sign_el sp now id = PVal (doc_of (ORet r))
   end) /\
  (forall name_id session_index,
   let el := Build.build_logout_request (sc_b sp) id now name_id session_index in
   let step := G_SignLogoutRequest pk_of key_name crypto_of sp now el in
   (forall d, crypto_of d el = crypto) ->
   match Build.message_doc (sc_b sp) (abs_keycfg pk_of key_name (sc_keys sp)) (MLogoutRequest name_id session_index) id now true crypto with
   | OPanic _ => step = PPanic
   | ORet r => step_of step = Some (sign_el el) ->
               G_BuildLogoutRequestDocument sign_el sp now name_id session_index id = PVal (doc_of (ORet r))
   end) /\
  (forall status req_id,
   let el := Build.build_logout_response (sc_b sp) id now status req_id in
   let step := G_SignLogoutResponse pk_of key_name crypto_of sp now el in
   (forall d, crypto_of d el = crypto) ->
   match Build.message_doc (sc_b sp) (abs_keycfg pk_of key_name (sc_keys sp)) (MLogoutResponse status req_id) id now true crypto with
   | OPanic _ => step = PPanic
   | ORet r => step_of step = Some (sign_el el) ->
               G_BuildLogoutResponseDocument sign_el sp now status req_id id = PVal (doc_of (ORet r))
   end).
Proof. exact signed_documents_tie. Qed.
Print Assumptions C13_source_signed_documents_are_the_model.


