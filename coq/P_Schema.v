(* P_Schema.v — lemmas about the encoding/xml interpreter (Schema.v): how one field's value is determined.
   Used by C20 (two decoders reading the same tokens agree on shared fields) and C08. *)
From V Require Import Base Time Xml SchemaDefs Schema.
Local Open Scope string_scope.
Local Open Scope list_scope.

Lemma assoc_get_set_same {A} k (v : A) l : assoc_get k (assoc_set k v l) = Some v.
Proof.
  induction l as [|[k' v'] r IH]; cbn.
  - rewrite String.eqb_refl. reflexivity.
  - destruct (k =?s k') eqn:E; cbn; [rewrite String.eqb_refl; reflexivity | rewrite E; exact IH].
Qed.

Lemma assoc_get_set_other {A} k k0 (v : A) l : k <> k0 -> assoc_get k (assoc_set k0 v l) = assoc_get k l.
Proof.
  intros Hne. induction l as [|[k' v'] r IH]; cbn.
  - destruct (k =?s k0) eqn:E; [apply str_eqb_eq in E; contradiction | reflexivity].
  - destruct (k0 =?s k') eqn:E0; cbn.
    + apply str_eqb_eq in E0. subst k'.
      destruct (k =?s k0) eqn:E; [apply str_eqb_eq in E; contradiction | reflexivity].
    + destruct (k =?s k'); [reflexivity | exact IH].
Qed.

Definition attr_matches (ns name : string) (a : xattr) : bool :=
  (xa_local a =?s name) && ((ns =?s "") || (ns =?s xa_space a)).

(* the last attribute (document order) matching an attr field *)
Fixpoint last_matching (ns name : string) (attrs : list xattr) : option xattr :=
  match attrs with
  | [] => None
  | a :: r => match last_matching ns name r with
              | Some b => Some b
              | None => if attr_matches ns name a then Some a else None
              end
  end.

Section AttrField.
  Variable g : string.            (* Go field name *)
  Variable ns name : string.      (* its attr tag *)

  (* [g] is a string-typed attr field of [fs], and no other field of [fs] has Go name [g] *)
  Fixpoint OnlyStrAttr (fs : list field) : Prop :=
    match fs with
    | [] => True
    | f :: r => (f_go f = g -> f_kind f = KAttr ns name /\ f_type f = TStr) /\ OnlyStrAttr r
    end.
  Fixpoint Has (fs : list field) : Prop :=
    match fs with
    | [] => False
    | f :: r => (f_go f = g /\ ~ Has r /\ forall f', In f' r -> f_go f' <> g) \/ (f_go f <> g /\ Has r)
    end.

  Lemma assign_attr_get fs a vals vals' :
    OnlyStrAttr fs -> assign_attr fs a vals = Ok vals' ->
    (Has fs -> assoc_get g vals' = if attr_matches ns name a then Some (GStr (xa_val a)) else assoc_get g vals) /\
    ((forall f, In f fs -> f_go f <> g) -> assoc_get g vals' = assoc_get g vals).
  Proof.
    revert vals. induction fs as [|f r IH]; intros vals HO Ha; cbn [assign_attr] in Ha.
    - inversion Ha; subst. split; [intros []|auto].
    - destruct HO as [Hf HO].
      assert (Hstep : exists vals1,
                 assign_attr r a vals1 = Ok vals' /\
                 ((f_go f = g -> assoc_get g vals1 = if attr_matches ns name a then Some (GStr (xa_val a)) else assoc_get g vals) /\
                  (f_go f <> g -> assoc_get g vals1 = assoc_get g vals))).
      { destruct (f_kind f) as [xs xl|fns fname|ps ens ename| | | ] eqn:EK;
          try (exists vals; split; [exact Ha|]; split; [intros Hg; destruct (Hf Hg) as [HK _]; congruence | auto]).
        destruct ((xa_local a =?s fname) && ((fns =?s "") || (fns =?s xa_space a))) eqn:EM.
        - unfold bind in Ha. destruct (set_scalar (f_type f) (xa_val a)) as [v|e] eqn:ES; [|discriminate].
          exists (assoc_set (f_go f) v vals). split; [exact Ha|]. split.
          + intros Hg. destruct (Hf Hg) as [HK HT]. try rewrite EK in HK. inversion HK; subst fns fname.
            unfold attr_matches. rewrite EM. rewrite HT in ES. cbn in ES. inversion ES; subst v.
            rewrite Hg. apply assoc_get_set_same.
          + intros Hg. apply assoc_get_set_other. congruence.
        - exists vals. split; [exact Ha|]. split; [|auto].
          intros Hg. destruct (Hf Hg) as [HK _]. try rewrite EK in HK. inversion HK; subst fns fname.
          unfold attr_matches. rewrite EM. reflexivity. }
      destruct Hstep as (vals1 & Ha1 & Hg1 & Hg2).
      destruct (IH vals1 HO Ha1) as [IH1 IH2]. split.
      + intros [(Hg & Hnr & Hno)|(Hg & Hr)].
        * rewrite (IH2 Hno). apply Hg1; exact Hg.
        * rewrite (IH1 Hr). rewrite (Hg2 Hg). reflexivity.
      + intros Hall. rewrite IH2; [|intros f' Hin; apply Hall; right; exact Hin].
        apply Hg2. apply Hall. left; reflexivity.
  Qed.

  Lemma assign_attrs_get fs attrs vals vals' :
    OnlyStrAttr fs -> Has fs -> assign_attrs fs attrs vals = Ok vals' ->
    assoc_get g vals' = match last_matching ns name attrs with
                        | Some a => Some (GStr (xa_val a))
                        | None => assoc_get g vals
                        end.
  Proof.
    intros HO HH. revert vals. induction attrs as [|a r IH]; intros vals H; cbn [assign_attrs last_matching] in *.
    - inversion H; reflexivity.
    - unfold bind in H. destruct (assign_attr fs a vals) as [vals1|e] eqn:EA; [|discriminate].
      rewrite (IH vals1 H). destruct (last_matching ns name r); [reflexivity|].
      destruct (assign_attr_get fs a vals vals1 HO EA) as [H1 _]. rewrite (H1 HH).
      destruct (attr_matches ns name a); reflexivity.
  Qed.
End AttrField.

(* ---- boolean versions of the side conditions (so that they are discharged by computation on a concrete schema) ---- *)
Definition count_go (g : string) (fs : list field) : nat := List.length (filter (fun f => f_go f =?s g) fs).

Definition only_str_attr_b (g ns name : string) (fs : list field) : bool :=
  forallb (fun f => negb (f_go f =?s g) ||
                    match f_kind f, f_type f with
                    | KAttr s l, TStr => (s =?s ns) && (l =?s name)
                    | _, _ => false
                    end) fs.

Lemma only_str_attr_b_ok g ns name fs : only_str_attr_b g ns name fs = true -> OnlyStrAttr g ns name fs.
Proof.
  induction fs as [|f r IH]; cbn; [auto|].
  intros H. apply andb_true_iff in H as [Hf Hr]. split; [|apply IH; exact Hr].
  intros Hg. rewrite Hg, String.eqb_refl in Hf. cbn in Hf.
  destruct (f_kind f); try discriminate. destruct (f_type f); try discriminate.
  apply andb_true_iff in Hf as [A B]. apply str_eqb_eq in A, B. subst. auto.
Qed.

Lemma count_zero g fs : count_go g fs = O -> (forall f', In f' fs -> f_go f' <> g) /\ ~ Has g fs.
Proof.
  unfold count_go. induction fs as [|f r IH]; cbn [filter]; [intros _; split; [intros f' []|intros []]|].
  destruct (f_go f =?s g) eqn:E; cbn [List.length]; [discriminate|].
  apply str_eqb_neq in E. intros H. destruct (IH H) as [H1 H2]. split.
  - intros f' [<-|Hin]; [exact E | apply H1; exact Hin].
  - cbn [Has]. intros [(Hg & _)|(_ & Hr)]; [contradiction | apply H2; exact Hr].
Qed.

Lemma count_one g fs : count_go g fs = 1%nat -> Has g fs.
Proof.
  unfold count_go. induction fs as [|f r IH]; cbn [filter]; [discriminate|].
  destruct (f_go f =?s g) eqn:E; cbn [List.length Has].
  - apply str_eqb_eq in E. intros H. inversion H as [H0]. destruct (count_zero g r H0) as [H1 H2]. left. auto.
  - apply str_eqb_neq in E. intros H. right. split; [exact E | apply IH; exact H].
Qed.

(* ---- walk does not touch fields that are not element fields ---- *)
Lemma path_select_inl fs parents sp lo f :
  path_select fs parents sp lo = Some (inl f) -> In f fs /\ exists ps ens, f_kind f = KElem ps ens lo.
Proof.
  induction fs as [|f0 r IH]; cbn [path_select]; [discriminate|].
  destruct (f_kind f0) as [xs xl|ans an|ps ens en| | | ] eqn:EK;
    try (intros H; destruct (IH H) as [Hin Hk]; split; [right; exact Hin | exact Hk]).
  destruct (Nat.ltb (List.length ps) (List.length parents) || (negb (ens =?s "") && negb (ens =?s sp)) || negb (is_prefix_of parents ps)).
  - intros H; destruct (IH H) as [Hin Hk]; split; [right; exact Hin | exact Hk].
  - destruct (Nat.eqb (List.length ps) (List.length parents) && (en =?s lo)) eqn:EP.
    + intros H; inversion H; subst f0. apply andb_true_iff in EP as [_ EN]. apply str_eqb_eq in EN. subst en.
      split; [left; reflexivity | eauto].
    + destruct (Nat.ltb (List.length parents) (List.length ps) && (nth (List.length parents) ps "" =?s lo)); [discriminate|].
      intros H; destruct (IH H) as [Hin Hk]; split; [right; exact Hin | exact Hk].
Qed.

Lemma walk_preserves um fs g :
  (forall f ps ens en, In f fs -> f_kind f = KElem ps ens en -> f_go f <> g) ->
  forall fuel parents kids vals vals',
    walk um fs fuel parents kids vals = Ok vals' -> assoc_get g vals' = assoc_get g vals.
Proof.
  intros Hg. induction fuel as [|fuel IH]; intros parents kids vals vals' H; cbn [walk] in H; [discriminate|].
  destruct kids as [|[cs cl cattrs ckids|t] r]; [inversion H; reflexivity| |eapply IH; eauto].
  destruct (path_select fs parents cs cl) as [[f|ps]|] eqn:EP.
  - unfold bind in H. destruct (um (f_type f) (field_get vals f) (XElem cs cl cattrs ckids)) as [v|e]; [|discriminate].
    rewrite (IH _ _ _ _ H). apply assoc_get_set_other.
    destruct (path_select_inl fs parents cs cl f EP) as [Hin (ps & ens & Hk)].
    intros Heq. eapply Hg; eauto.
  - unfold bind in H. destruct (walk um fs fuel ps ckids vals) as [vals1|e] eqn:EW; [|discriminate].
    rewrite (IH _ _ _ _ H). eapply IH; eauto.
  - eapply IH; eauto.
Qed.

(* ---- how an element field (no parent path) evolves: only the direct children with its name update it ---- *)
Lemma path_select_inl_len fs parents sp lo f ps ens en :
  path_select fs parents sp lo = Some (inl f) -> f_kind f = KElem ps ens en -> List.length ps = List.length parents.
Proof.
  induction fs as [|f0 r IH]; cbn [path_select]; [discriminate|].
  destruct (f_kind f0) as [xs xl|ans an|ps0 ens0 en0| | | ] eqn:EK; try (intros H Hk; exact (IH H Hk)).
  destruct (Nat.ltb (List.length ps0) (List.length parents) || (negb (ens0 =?s "") && negb (ens0 =?s sp)) || negb (is_prefix_of parents ps0)).
  - intros H Hk; exact (IH H Hk).
  - destruct (Nat.eqb (List.length ps0) (List.length parents) && (en0 =?s lo)) eqn:EP.
    + intros H Hk; inversion H; subst f0. rewrite EK in Hk. inversion Hk; subst.
      apply andb_true_iff in EP as [EL _]. apply Nat.eqb_eq in EL. exact EL.
    + destruct (Nat.ltb (List.length parents) (List.length ps0) && (nth (List.length parents) ps0 "" =?s lo)); [discriminate|].
      intros H Hk; exact (IH H Hk).
Qed.

Lemma path_select_inr_nonempty fs parents sp lo q : path_select fs parents sp lo = Some (inr q) -> q <> [].
Proof.
  induction fs as [|f0 r IH]; cbn [path_select]; [discriminate|].
  destruct (f_kind f0) as [xs xl|ans an|ps0 ens0 en0| | | ] eqn:EK; try (intros H; exact (IH H)).
  destruct (Nat.ltb (List.length ps0) (List.length parents) || (negb (ens0 =?s "") && negb (ens0 =?s sp)) || negb (is_prefix_of parents ps0)).
  - intros H; exact (IH H).
  - destruct (Nat.eqb (List.length ps0) (List.length parents) && (en0 =?s lo)); [discriminate|].
    destruct (Nat.ltb (List.length parents) (List.length ps0) && (nth (List.length parents) ps0 "" =?s lo)) eqn:EL.
    + intros H; inversion H; subst q. apply andb_true_iff in EL as [EL _]. apply Nat.ltb_lt in EL.
      destruct ps0 as [|x ps0]; [cbn in EL; lia|]. cbn. discriminate.
    + intros H; exact (IH H).
Qed.

Section ElemField.
  Variable um : ftype -> gval -> xnode -> res gval.
  Variable fs : list field.
  Variable f : field.
  Variable name : string.
  Hypothesis Hkind : f_kind f = KElem [] "" name.
  Hypothesis Hsel : forall sp, path_select fs [] sp name = Some (inl f).
  Hypothesis Huniq : forall f', In f' fs -> f_go f' = f_go f -> f' = f.

  Fixpoint evolve (kids : list xnode) (cur : gval) : res gval :=
    match kids with
    | [] => Ok cur
    | (XElem _ cl _ _ as c) :: r => if cl =?s name then do v <- um (f_type f) cur c; evolve r v else evolve r cur
    | _ :: r => evolve r cur
    end.

  Lemma field_get_set_other vals f' v : f_go f' <> f_go f -> field_get (assoc_set (f_go f') v vals) f = field_get vals f.
  Proof. intros H. unfold field_get. rewrite assoc_get_set_other; [reflexivity|congruence]. Qed.

  Lemma field_get_set_same vals v : field_get (assoc_set (f_go f) v vals) f = v.
  Proof. unfold field_get. rewrite assoc_get_set_same. reflexivity. Qed.

  Lemma walk_elem_field : forall fuel,
    (forall parents kids vals vals', parents <> [] ->
        walk um fs fuel parents kids vals = Ok vals' -> field_get vals' f = field_get vals f) /\
    (forall kids vals vals',
        walk um fs fuel [] kids vals = Ok vals' -> evolve kids (field_get vals f) = Ok (field_get vals' f)).
  Proof.
    induction fuel as [|fuel [IH1 IH2]]; [split; intros; cbn [walk] in *; discriminate|].
    split.
    - intros parents kids vals vals' Hne H. cbn [walk] in H.
      destruct kids as [|[cs cl cattrs ckids|t] r]; [inversion H; reflexivity| |eapply IH1; eauto].
      destruct (path_select fs parents cs cl) as [[f'|q]|] eqn:EP.
      + unfold bind in H. destruct (um (f_type f') (field_get vals f') (XElem cs cl cattrs ckids)) as [v|e]; [|discriminate].
        rewrite (IH1 _ _ _ _ Hne H). apply field_get_set_other.
        destruct (path_select_inl fs parents cs cl f' EP) as [Hin (ps & ens & Hk)].
        intros Heq. assert (f' = f) by (apply Huniq; auto). subst f'.
        pose proof (path_select_inl_len fs parents cs cl f [] "" name EP Hkind) as HL.
        destruct parents; [contradiction | cbn in HL; discriminate].
      + unfold bind in H. destruct (walk um fs fuel q ckids vals) as [vals1|e] eqn:EW; [|discriminate].
        rewrite (IH1 _ _ _ _ Hne H). eapply IH1; [|exact EW]. eapply path_select_inr_nonempty; eauto.
      + eapply IH1; eauto.
    - intros kids vals vals' H. cbn [walk] in H.
      destruct kids as [|[cs cl cattrs ckids|t] r]; [inversion H; reflexivity| |cbn [evolve]; eapply IH2; eauto].
      cbn [evolve].
      destruct (cl =?s name) eqn:EN.
      + apply str_eqb_eq in EN. subst cl. rewrite Hsel in H. unfold bind in H |- *.
        destruct (um (f_type f) (field_get vals f) (XElem cs name cattrs ckids)) as [v|e]; [|discriminate].
        rewrite <- (field_get_set_same vals v). eapply IH2; eauto.
      + apply str_eqb_neq in EN.
        destruct (path_select fs [] cs cl) as [[f'|q]|] eqn:EP.
        * unfold bind in H. destruct (um (f_type f') (field_get vals f') (XElem cs cl cattrs ckids)) as [v|e]; [|discriminate].
          destruct (path_select_inl fs [] cs cl f' EP) as [Hin (ps & ens & Hk)].
          assert (Hgo : f_go f' <> f_go f).
          { intros Heq. assert (f' = f) by (apply Huniq; auto). subst f'. rewrite Hkind in Hk. inversion Hk; subst. contradiction. }
          rewrite <- (field_get_set_other vals f' v Hgo). eapply IH2; eauto.
        * unfold bind in H. destruct (walk um fs fuel q ckids vals) as [vals1|e] eqn:EW; [|discriminate].
          assert (Hq : q <> []) by (eapply path_select_inr_nonempty; eauto).
          rewrite <- (IH1 _ _ _ _ Hq EW). eapply IH2; eauto.
        * eapply IH2; eauto.
  Qed.
End ElemField.

(* attributes never write a field that is not an attr field *)
Lemma assign_attr_nonattr g fs a : forall vals vals',
  (forall f', In f' fs -> f_go f' = g -> forall ns n, f_kind f' <> KAttr ns n) ->
  assign_attr fs a vals = Ok vals' -> assoc_get g vals' = assoc_get g vals.
Proof.
  induction fs as [|f r IH]; intros vals vals' Hn H; cbn [assign_attr] in H; [inversion H; reflexivity|].
  assert (Hr : forall f', In f' r -> f_go f' = g -> forall ns n, f_kind f' <> KAttr ns n) by (intros f' Hin; apply Hn; right; exact Hin).
  destruct (f_kind f) as [xs xl|fns fname|ps ens ename| | | ] eqn:EK; try (eapply IH; eauto; fail).
  destruct ((xa_local a =?s fname) && ((fns =?s "") || (fns =?s xa_space a))); [|eapply IH; eauto].
  unfold bind in H. destruct (set_scalar (f_type f) (xa_val a)) as [v|e]; [|discriminate].
  rewrite (IH _ _ Hr H). apply assoc_get_set_other.
  intros Heq. symmetry in Heq. apply (Hn f (or_introl eq_refl) Heq fns fname). exact EK.
Qed.

Lemma assign_attrs_nonattr g fs attrs : forall vals vals',
  (forall f', In f' fs -> f_go f' = g -> forall ns n, f_kind f' <> KAttr ns n) ->
  assign_attrs fs attrs vals = Ok vals' -> assoc_get g vals' = assoc_get g vals.
Proof.
  induction attrs as [|a r IH]; intros vals vals' Hn H; cbn [assign_attrs] in H; [inversion H; reflexivity|].
  unfold bind in H. destruct (assign_attr fs a vals) as [vals1|e] eqn:EA; [|discriminate].
  rewrite (IH _ _ Hn H). eapply assign_attr_nonattr; eauto.
Qed.

Lemma unmarshal_struct_elem_field um fs wf sp lo attrs kids vals f name :
  f_kind f = KElem [] "" name ->
  (forall sp, path_select fs [] sp name = Some (inl f)) ->
  (forall f', In f' fs -> f_go f' = f_go f -> f' = f) ->
  f_go f <> "XMLName" -> has_chardata fs = None -> has_innerxml fs = None ->
  unmarshal_struct um fs wf (GStruct []) sp lo attrs kids = Ok (GStruct vals) ->
  evolve um f name kids (zero_of (f_type f)) = Ok (field_get vals f).
Proof.
  intros Hk Hsel Hu Hx Hc Hi H. unfold unmarshal_struct in H. rewrite Hc, Hi in H. unfold bind in H.
  match type of H with (match ?X with Ok _ => _ | Err _ => _ end) = _ => destruct X as [vals1|e] eqn:E1 end; [|discriminate].
  destruct (assign_attrs fs attrs vals1) as [vals2|e] eqn:E2; [|discriminate].
  destruct (walk um fs wf [] kids vals2) as [vals3|e] eqn:E3; [|discriminate].
  inversion H; subst vals.
  destruct (walk_elem_field um fs f name Hk Hsel Hu wf) as [_ HW].
  rewrite <- (HW kids vals2 vals3 E3). f_equal.
  unfold field_get.
  rewrite (assign_attrs_nonattr (f_go f) fs attrs vals1 vals2); [|
    intros f' Hin Heq ns n Hka; assert (f' = f) by (apply Hu; auto); subst f'; congruence | exact E2].
  destruct (xml_name_of fs) as [[xs xl]|].
  - destruct (negb (xl =?s "") && negb (xl =?s lo)); [discriminate|].
    destruct (negb (xs =?s "") && negb (xs =?s sp)); [discriminate|].
    inversion E1; subst. cbn. destruct (f_go f =?s "XMLName") eqn:EX; [apply str_eqb_eq in EX; contradiction|reflexivity].
  - inversion E1; subst. reflexivity.
Qed.

(* ---- the views of Schema.v, one per etree write setting ---- *)
(* reading the received bytes directly (the pre-decoders) and reading xmlUnmarshalElement's canonical serialisation of the
   tree built from them give the same tokens: neither changes a value *)
Lemma view_direct_is_view : forall n ns, view_direct ns n = view ns n.
Proof. reflexivity. Qed.    (* the two fixpoints have the same body *)

Lemma view_ws_canonical : forall n ns, view_ws true true ns n = view ns n.
Proof.
  fix IH 1. intros [s t a k| | | | ] ns; try reflexivity.
  cbn [view view_ws read_back]. cbv zeta. f_equal. f_equal.
  induction k as [|x r IHr]; [reflexivity|]. cbn [flat_map]. rewrite IH, IHr. reflexivity.
Qed.

Lemma view_ws_default : forall n ns, view_ws false false ns n = view_original ns n.
Proof.
  fix IH 1. intros [s t a k| | | | ] ns; try reflexivity.
  cbn [view_original view_ws read_back]. cbv zeta. f_equal. f_equal.
  induction k as [|x r IHr]; [reflexivity|]. cbn [flat_map]. rewrite IH, IHr. reflexivity.
Qed.

Lemma unmarshal_element_direct_is_unmarshal_element sch name root :
  unmarshal_element_direct sch name root = unmarshal_element sch name root.
Proof. unfold unmarshal_element_direct, unmarshal_element. rewrite view_direct_is_view. reflexivity. Qed.

Lemma unmarshal_element_ws_canonical sch name root :
  unmarshal_element_ws true true sch name root = unmarshal_element sch name root.
Proof. unfold unmarshal_element_ws, unmarshal_element. rewrite view_ws_canonical. reflexivity. Qed.

Lemma unmarshal_element_ws_default sch name root :
  unmarshal_element_ws false false sch name root = unmarshal_element_original sch name root.
Proof. unfold unmarshal_element_ws, unmarshal_element_original. rewrite view_ws_default. reflexivity. Qed.

(* the value an attr field without name space takes, read off the element itself: the last attribute with that local name *)
Fixpoint last_attr_named (name : string) (attrs : list attr) : option attr :=
  match attrs with
  | [] => None
  | a :: r => match last_attr_named name r with
              | Some b => Some b
              | None => if at_key a =?s name then Some a else None
              end
  end.
Definition element_attr (name : string) (n : node) : string :=
  match n with
  | Elem _ _ attrs _ => match last_attr_named name attrs with Some a => at_val a | None => "" end
  | _ => ""
  end.

Lemma last_matching_view_attrs (f : attr -> string) name attrs :
  option_map xa_val
    (last_matching "" name (map (fun a => {| xa_space := f a; xa_local := at_key a; xa_val := at_val a |}) attrs))
  = option_map at_val (last_attr_named name attrs).
Proof.
  induction attrs as [|a r IH]; [reflexivity|]. cbn [map last_matching last_attr_named].
  destruct (last_matching "" name _) as [b|]; destruct (last_attr_named name r) as [b'|]; cbn [option_map] in IH; try discriminate.
  - exact IH.
  - unfold attr_matches. cbn [xa_local xa_space]. change ("" =?s "") with true. cbn [orb]. rewrite Bool.andb_true_r.
    destruct (at_key a =?s name); reflexivity.
Qed.
