(* P_Dsig.v — theorems about Dsig.v (model of goxmldsig v1.5.0 ValidationContext.Validate), for ALL trees, stores,
   clocks and ALL behaviours of the oracles canon / digest / sig_ok / parse_cert / reparse. *)
From Coq Require Import Permutation.
From V Require Import Base Time Escape Xml Ns SchemaDefs Schema Types ConcDefs Generated Profile Decode Response P_Ns P_Response Dsig.
Local Open Scope nat_scope.
Local Open Scope string_scope.
Local Open Scope list_scope.

(* ================================================================ small facts *)
Lemma node_at_subtree n p : node_at n p = subtree n p.
Proof. revert n; induction p as [|i r IH]; intros n; cbn; [reflexivity|]. destruct (nth_error (kids_of n) i); auto. Qed.

Lemma sub_ctx_ok ctx attrs c : sub_ctx ctx attrs = Ok c <-> sub_context ctx attrs = Ok c.
Proof. unfold sub_ctx. destruct (sub_context ctx attrs); split; intros H; inversion H; reflexivity. Qed.

Lemma relabel_ok {A} e (r : res A) a : relabel e r = Ok a -> r = Ok a.
Proof. destruct r; cbn; intros H; inversion H; reflexivity. Qed.

Lemma no_missing_ok {A} (r : res A) a : no_missing r = Ok a -> r = Ok a.
Proof. destruct r as [x|e]; cbn; [auto|]. destruct e; discriminate. Qed.
Lemma no_missing_not_missing {A} (r : res A) : no_missing r <> Err EMissingSignature.
Proof. destruct r as [x|e]; cbn; [discriminate|]. destruct e; discriminate. Qed.

Lemma nth_error_replace_nth_eq {A} (l : list A) i x y : nth_error l i = Some y -> nth_error (replace_nth i x l) i = Some x.
Proof. revert i; induction l as [|a r IH]; intros [|i] H; cbn in *; try discriminate; auto. Qed.
Lemma nth_error_replace_nth_neq {A} (l : list A) i j x : i <> j -> nth_error (replace_nth i x l) j = nth_error l j.
Proof. revert i j; induction l as [|a r IH]; intros [|i] [|j] H; cbn; auto; congruence. Qed.
Lemma length_replace_nth {A} (l : list A) i x : List.length (replace_nth i x l) = List.length l.
Proof. revert i; induction l as [|a r IH]; intros [|i]; cbn; auto. Qed.

(* ================================================================ rules for the halting, mutating traversal *)
(* only children tagged SignedInfo may be replaced by a handler; everything else of the visited element stays *)
Definition si_tag := "SignedInfo".
Definition Frame {R} (h : nsctx -> list nat -> node -> nat -> res (node * nat * option R)) : Prop :=
  forall ctx path sp tg attrs kids lim el1 lim1 r,
    h ctx path (Elem sp tg attrs kids) lim = Ok (el1, lim1, r) ->
    exists kids1, el1 = Elem sp tg attrs kids1 /\ List.length kids1 = List.length kids /\
      forall j, (forall k, nth_error kids j = Some k -> tag_of k <> si_tag) -> nth_error kids1 j = nth_error kids j.

(* no step of the path enters an element tagged SignedInfo *)
Fixpoint clean (n : node) (p : list nat) : Prop :=
  match p with
  | [] => True
  | i :: r => match nth_error (kids_of n) i with
              | Some k => tag_of k <> si_tag /\ clean k r
              | None => False
              end
  end.

(* what is left of a tree when every child tagged SignedInfo is blanked: the part a handler satisfying Frame cannot touch *)
Fixpoint erase_si (n : node) : node :=
  match n with
  | Elem sp tg attrs kids =>
      Elem sp tg attrs ((fix go (ks : list node) : list node :=
                           match ks with
                           | [] => []
                           | k :: r => (if tag_of k =?s si_tag then Text "" else erase_si k) :: go r
                           end) kids)
  | other => other
  end.
Definition erase_kid (k : node) : node := if tag_of k =?s si_tag then Text "" else erase_si k.
Lemma erase_si_elem sp tg attrs kids : erase_si (Elem sp tg attrs kids) = Elem sp tg attrs (map erase_kid kids).
Proof.
  cbn [erase_si]. f_equal.
Qed.

Section MTraverseRules.
  Context {R : Type}.
  Variable h : nsctx -> list nat -> node -> nat -> res (node * nat * option R).

  Lemma mtraverse_unfold fuel ctx path sp tg attrs kids lim :
    mtraverse h (S fuel) ctx path (Elem sp tg attrs kids) lim =
    match lim with
    | O => Err e_limit
    | S lim' =>
        do ctx' <- sub_ctx ctx attrs;
        do t <- h ctx' path (Elem sp tg attrs kids) lim';
        match t with
        | (el1, lim1, Some f) => Ok (el1, lim1, Some f)
        | (el1, lim1, None) =>
            match el1 with
            | Elem sp1 tg1 attrs1 kids1 =>
                do t2 <- mkids (mtraverse h fuel) ctx' path kids1 0 lim1;
                match t2 with (kids2, lim2, f) => Ok (Elem sp1 tg1 attrs1 kids2, lim2, f) end
            | other => Ok (other, lim1, None)
            end
        end
    end.
  Proof. reflexivity. Qed.

  (* ---- where a halt comes from ---- *)
  Lemma mkids_halt (trav : nsctx -> list nat -> node -> nat -> res (node * nat * option R)) ctx' path :
    forall ks i lim ks' lim' f,
      mkids trav ctx' path ks i lim = Ok (ks', lim', Some f) ->
      exists j k limj k' limj',
        nth_error ks j = Some k /\ is_elem k = true /\
        trav ctx' (path ++ [i + j]) k limj = Ok (k', limj', Some f) /\ nth_error ks' j = Some k' /\
        List.length ks' = List.length ks /\
        (forall m, m < j -> forall km, nth_error ks m = Some km -> is_elem km = true ->
                   exists limm km' limm', trav ctx' (path ++ [i + m]) km limm = Ok (km', limm', None)).
  Proof.
    induction ks as [|k r IH]; intros i lim ks' lim' f H; cbn [mkids] in H; [inversion H|].
    destruct k as [ksp ktg kattrs kkids | s | s | t0 i0 | s].
    - destruct (trav ctx' (path ++ [i]) (Elem ksp ktg kattrs kkids) lim) as [[[k' l1] [f1|]]|e] eqn:ET; cbn [bind] in H; [| |discriminate].
      + inversion H; subst. exists 0, (Elem ksp ktg kattrs kkids), lim, k', lim'. rewrite Nat.add_0_r.
        repeat split; auto. intros m Hm; inversion Hm.
      + destruct (mkids trav ctx' path r (S i) l1) as [[[r' l2] f2]|e] eqn:EM; cbn [bind] in H; [|discriminate].
        inversion H; subst.
        destruct (IH _ _ _ _ _ EM) as (j & kj & limj & kj' & limj' & Hn & He & Ht & Hn' & Hlen & Hbefore).
        exists (S j), kj, limj, kj', limj'. rewrite <- plus_n_Sm. cbn [nth_error List.length].
        repeat split; auto.
        intros m Hm km Hkm Hekm. destruct m as [|m].
        * cbn in Hkm. inversion Hkm; subst km. rewrite Nat.add_0_r. eauto.
        * cbn in Hkm. rewrite <- plus_n_Sm. apply (Hbefore m); [lia|exact Hkm|exact Hekm].
    - destruct (mkids trav ctx' path r (S i) lim) as [[[r' l2] f2]|e] eqn:EM; cbn [bind] in H; [|discriminate].
      inversion H; subst. destruct (IH _ _ _ _ _ EM) as (j & kj & limj & kj' & limj' & Hn & He & Ht & Hn' & Hlen & Hb).
      exists (S j), kj, limj, kj', limj'. rewrite <- plus_n_Sm. cbn [nth_error List.length]. repeat split; auto.
      intros m Hm km Hkm Hekm. destruct m as [|m]; cbn in Hkm; [inversion Hkm; subst; discriminate|].
      rewrite <- plus_n_Sm. apply (Hb m); [lia|exact Hkm|exact Hekm].
    - destruct (mkids trav ctx' path r (S i) lim) as [[[r' l2] f2]|e] eqn:EM; cbn [bind] in H; [|discriminate].
      inversion H; subst. destruct (IH _ _ _ _ _ EM) as (j & kj & limj & kj' & limj' & Hn & He & Ht & Hn' & Hlen & Hb).
      exists (S j), kj, limj, kj', limj'. rewrite <- plus_n_Sm. cbn [nth_error List.length]. repeat split; auto.
      intros m Hm km Hkm Hekm. destruct m as [|m]; cbn in Hkm; [inversion Hkm; subst; discriminate|].
      rewrite <- plus_n_Sm. apply (Hb m); [lia|exact Hkm|exact Hekm].
    - destruct (mkids trav ctx' path r (S i) lim) as [[[r' l2] f2]|e] eqn:EM; cbn [bind] in H; [|discriminate].
      inversion H; subst. destruct (IH _ _ _ _ _ EM) as (j & kj & limj & kj' & limj' & Hn & He & Ht & Hn' & Hlen & Hb).
      exists (S j), kj, limj, kj', limj'. rewrite <- plus_n_Sm. cbn [nth_error List.length]. repeat split; auto.
      intros m Hm km Hkm Hekm. destruct m as [|m]; cbn in Hkm; [inversion Hkm; subst; discriminate|].
      rewrite <- plus_n_Sm. apply (Hb m); [lia|exact Hkm|exact Hekm].
    - destruct (mkids trav ctx' path r (S i) lim) as [[[r' l2] f2]|e] eqn:EM; cbn [bind] in H; [|discriminate].
      inversion H; subst. destruct (IH _ _ _ _ _ EM) as (j & kj & limj & kj' & limj' & Hn & He & Ht & Hn' & Hlen & Hb).
      exists (S j), kj, limj, kj', limj'. rewrite <- plus_n_Sm. cbn [nth_error List.length]. repeat split; auto.
      intros m Hm km Hkm Hekm. destruct m as [|m]; cbn in Hkm; [inversion Hkm; subst; discriminate|].
      rewrite <- plus_n_Sm. apply (Hb m); [lia|exact Hkm|exact Hekm].
  Qed.

  (* a halting traversal: the handler halted on some element e0 (as it stood when visited) at a path p of the
     RESULT tree, where it left e1; if p is clean in the INPUT tree, e0 is the input's element at p, in its context *)
  Hypothesis HF : Frame h.

  Lemma mtraverse_halt : forall fuel ctx base el lim el' lim' f,
    mtraverse h fuel ctx base el lim = Ok (el', lim', Some f) ->
    exists p ctx0 e0 lim0 e1 lim1,
      h ctx0 (base ++ p) e0 lim0 = Ok (e1, lim1, Some f) /\ node_at el' p = Some e1 /\ is_elem e0 = true /\
      (exists parent, sub_context parent (attrs_of e0) = Ok ctx0) /\
      (clean el p -> node_at el p = Some e0 /\ ctx_at ctx el p = Some ctx0).
  Proof.
    induction fuel as [|fuel IH]; intros ctx base el lim el' lim' f H; [discriminate|].
    destruct el as [sp tg attrs kids | s | s | t0 i0 | s]; try discriminate.
    rewrite mtraverse_unfold in H. destruct lim as [|lim0]; [discriminate|].
    destruct (sub_ctx ctx attrs) as [ctx'|e] eqn:ES; cbn [bind] in H; [|discriminate].
    destruct (h ctx' base (Elem sp tg attrs kids) lim0) as [[[el1 lim1] [f1|]]|e] eqn:EH; cbn [bind] in H; [| |discriminate].
    - inversion H; subst. exists [], ctx', (Elem sp tg attrs kids), lim0, el', lim'. rewrite app_nil_r.
      apply sub_ctx_ok in ES. repeat split; auto; [exists ctx; exact ES|]. cbn. rewrite ES. reflexivity.
    - destruct (HF _ _ _ _ _ _ _ _ _ _ EH) as (kids1 & -> & Hlen & Hsame).
      destruct (mkids (mtraverse h fuel) ctx' base kids1 0 lim1) as [[[kids2 lim2] f2]|e] eqn:EM; cbn [bind] in H; [|discriminate].
      inversion H; subst.
      destruct (mkids_halt _ _ _ _ _ _ _ _ _ EM) as (j & k & limj & k' & limj' & Hn & He & Ht & Hn' & _ & _).
      cbn [Nat.add] in Ht.
      destruct (IH _ _ _ _ _ _ _ Ht) as (p & ctx0 & e0 & l0 & e1 & l1 & Hcall & Hat & He0 & Hpar & Hclean).
      exists (j :: p), ctx0, e0, l0, e1, l1. rewrite <- app_assoc in Hcall. cbn [app] in Hcall.
      repeat split; auto.
      + cbn [node_at kids_of]. rewrite Hn'. exact Hat.
      + cbn [clean kids_of] in H0. destruct (nth_error kids j) as [k0|] eqn:EK; [|contradiction]. destruct H0 as [Htag Hcl].
        assert (k = k0) by (rewrite Hsame in Hn; [congruence | intros k1 Hk1; rewrite EK in Hk1; inversion Hk1; subst; exact Htag]). subst k0.
        cbn [node_at kids_of]. rewrite EK. apply Hclean; exact Hcl.
      + cbn [clean kids_of] in H0. destruct (nth_error kids j) as [k0|] eqn:EK; [|contradiction]. destruct H0 as [Htag Hcl].
        assert (k = k0) by (rewrite Hsame in Hn; [congruence | intros k1 Hk1; rewrite EK in Hk1; inversion Hk1; subst; exact Htag]). subst k0.
        cbn [ctx_at]. apply sub_ctx_ok in ES. rewrite ES, EK. apply Hclean; exact Hcl.
  Qed.

  (* ---- a traversal that completes has run the handler, without halt, on every element reachable by a clean path ---- *)
  Lemma mkids_complete (trav : nsctx -> list nat -> node -> nat -> res (node * nat * option R)) ctx' path :
    forall ks i lim ks' lim',
      mkids trav ctx' path ks i lim = Ok (ks', lim', None) ->
      forall j k, nth_error ks j = Some k -> is_elem k = true ->
        exists limj k' limj', trav ctx' (path ++ [i + j]) k limj = Ok (k', limj', None).
  Proof.
    induction ks as [|k0 r IH]; intros i lim ks' lim' H j k Hj Hk; [destruct j; discriminate|].
    cbn [mkids] in H.
    destruct k0 as [ksp ktg kattrs kkids | s | s | t0 i0 | s].
    - destruct (trav ctx' (path ++ [i]) (Elem ksp ktg kattrs kkids) lim) as [[[k' l1] [f1|]]|e] eqn:ET; cbn [bind] in H; [discriminate| |discriminate].
      destruct (mkids trav ctx' path r (S i) l1) as [[[r' l2] f2]|e] eqn:EM; cbn [bind] in H; [|discriminate].
      inversion H; subst f2. destruct j as [|j].
      + cbn in Hj. inversion Hj; subst. rewrite Nat.add_0_r. eauto.
      + cbn in Hj. rewrite <- plus_n_Sm. eapply (IH (S i)); eauto.
    - destruct (mkids trav ctx' path r (S i) lim) as [[[r' l2] f2]|e] eqn:EM; cbn [bind] in H; [|discriminate]. inversion H; subst f2.
      destruct j as [|j]; cbn in Hj; [inversion Hj; subst; discriminate|]. rewrite <- plus_n_Sm. eapply (IH (S i)); eauto.
    - destruct (mkids trav ctx' path r (S i) lim) as [[[r' l2] f2]|e] eqn:EM; cbn [bind] in H; [|discriminate]. inversion H; subst f2.
      destruct j as [|j]; cbn in Hj; [inversion Hj; subst; discriminate|]. rewrite <- plus_n_Sm. eapply (IH (S i)); eauto.
    - destruct (mkids trav ctx' path r (S i) lim) as [[[r' l2] f2]|e] eqn:EM; cbn [bind] in H; [|discriminate]. inversion H; subst f2.
      destruct j as [|j]; cbn in Hj; [inversion Hj; subst; discriminate|]. rewrite <- plus_n_Sm. eapply (IH (S i)); eauto.
    - destruct (mkids trav ctx' path r (S i) lim) as [[[r' l2] f2]|e] eqn:EM; cbn [bind] in H; [|discriminate]. inversion H; subst f2.
      destruct j as [|j]; cbn in Hj; [inversion Hj; subst; discriminate|]. rewrite <- plus_n_Sm. eapply (IH (S i)); eauto.
  Qed.

  Lemma mtraverse_complete : forall fuel ctx base el lim el' lim',
    mtraverse h fuel ctx base el lim = Ok (el', lim', None) ->
    forall p e ctxe, node_at el p = Some e -> is_elem e = true -> clean el p -> ctx_at ctx el p = Some ctxe ->
      exists lim0 e1 lim1, h ctxe (base ++ p) e lim0 = Ok (e1, lim1, None).
  Proof.
    induction fuel as [|fuel IH]; intros ctx base el lim el' lim' H p e ctxe Hat He Hcl Hctx; [discriminate|].
    destruct el as [sp tg attrs kids | s | s | t0 i0 | s];
      try (destruct p as [|i p]; cbn in Hat; [inversion Hat; subst; discriminate | destruct i; discriminate]).
    rewrite mtraverse_unfold in H. destruct lim as [|lim0]; [discriminate|].
    destruct (sub_ctx ctx attrs) as [ctx'|er] eqn:ES; cbn [bind] in H; [|discriminate].
    destruct (h ctx' base (Elem sp tg attrs kids) lim0) as [[[el1 lim1] [f1|]]|er] eqn:EH; cbn [bind] in H; [discriminate| |discriminate].
    pose proof ES as ES'. apply sub_ctx_ok in ES'.
    destruct p as [|i p].
    - cbn in Hat. inversion Hat; subst e. cbn in Hctx. rewrite ES' in Hctx. inversion Hctx; subst ctxe.
      rewrite app_nil_r. eauto.
    - destruct (HF _ _ _ _ _ _ _ _ _ _ EH) as (kids1 & -> & Hlen & Hsame).
      destruct (mkids (mtraverse h fuel) ctx' base kids1 0 lim1) as [[[kids2 lim2] f2]|er] eqn:EM; cbn [bind] in H; [|discriminate].
      inversion H; subst f2.
      cbn [node_at kids_of] in Hat. cbn [clean kids_of] in Hcl. cbn [ctx_at] in Hctx. rewrite ES' in Hctx.
      destruct (nth_error kids i) as [k|] eqn:EK; [|discriminate]. destruct Hcl as [Htag Hcl].
      assert (Hk1 : nth_error kids1 i = Some k).
      { rewrite Hsame; [exact EK|]. intros k1 Hk1. rewrite EK in Hk1. inversion Hk1; subst. exact Htag. }
      assert (Hke : is_elem k = true).
      { destruct p as [|i2 p2]; cbn in Hat; [inversion Hat; subst; exact He|].
        destruct k; cbn in Hat; try (destruct i2; discriminate). reflexivity. }
      destruct (mkids_complete _ _ _ _ _ _ _ _ EM i k Hk1 Hke) as (limj & k' & limj' & Ht). cbn [Nat.add] in Ht.
      destruct (IH _ _ _ _ _ _ Ht p e ctxe Hat He Hcl Hctx) as (l0 & e1 & l1 & Hcall).
      exists l0, e1, l1. rewrite <- app_assoc in Hcall. exact Hcall.
  Qed.

  (* ---- the part of the tree outside SignedInfo children is never changed ---- *)
  Lemma frame_erase sp tg attrs kids kids1 :
    List.length kids1 = List.length kids ->
    (forall j, (forall k, nth_error kids j = Some k -> tag_of k <> si_tag) -> nth_error kids1 j = nth_error kids j) ->
    (forall j k k1, nth_error kids j = Some k -> nth_error kids1 j = Some k1 -> tag_of k = si_tag -> tag_of k1 = si_tag) ->
    erase_si (Elem sp tg attrs kids1) = erase_si (Elem sp tg attrs kids).
  Proof.
    intros Hlen Hsame Htag. rewrite !erase_si_elem. f_equal.
    revert kids1 Hlen Hsame Htag. induction kids as [|k r IH]; intros [|k1 r1] Hlen Hsame Htag; try discriminate; [reflexivity|].
    cbn [map]. f_equal.
    - destruct (tag_of k =?s si_tag) eqn:ET.
      + apply str_eqb_eq in ET. unfold erase_kid. rewrite (proj2 (str_eqb_eq _ _) ET).
        rewrite (proj2 (str_eqb_eq _ _) (Htag 0 k k1 eq_refl eq_refl ET)). reflexivity.
      + apply str_eqb_neq in ET. specialize (Hsame 0). cbn in Hsame.
        assert (E : Some k1 = Some k) by (apply Hsame; intros k0 Hk0; inversion Hk0; subst; exact ET).
        inversion E; reflexivity.
    - apply IH.
      + cbn in Hlen. lia.
      + intros j Hj. apply (Hsame (S j)). exact Hj.
      + intros j k0 k2 H1 H2. apply (Htag (S j)); assumption.
  Qed.

  (* handlers also keep the tag of a replaced SignedInfo child *)
  Hypothesis HT : forall ctx path sp tg attrs kids lim el1 lim1 r,
    h ctx path (Elem sp tg attrs kids) lim = Ok (el1, lim1, r) ->
    forall j k k1, nth_error kids j = Some k -> nth_error (kids_of el1) j = Some k1 -> tag_of k = si_tag -> tag_of k1 = si_tag.

  Lemma mkids_erase (trav : nsctx -> list nat -> node -> nat -> res (node * nat * option R)) ctx' path :
    (forall c p e l e' l' f, trav c p e l = Ok (e', l', f) -> erase_si e' = erase_si e /\ tag_of e' = tag_of e) ->
    forall ks i lim ks' lim' f, mkids trav ctx' path ks i lim = Ok (ks', lim', f) -> map erase_kid ks' = map erase_kid ks.
  Proof.
    intros Htrav. induction ks as [|k r IH]; intros i lim ks' lim' f H; cbn [mkids] in H; [inversion H; reflexivity|].
    destruct k as [ksp ktg kattrs kkids | s | s | t0 i0 | s].
    - destruct (trav ctx' (path ++ [i]) (Elem ksp ktg kattrs kkids) lim) as [[[k' l1] [f1|]]|e] eqn:ET; cbn [bind] in H; [| |discriminate].
      + inversion H; subst. cbn [map]. f_equal. destruct (Htrav _ _ _ _ _ _ _ ET) as [He Ht]. unfold erase_kid. rewrite Ht, He. reflexivity.
      + destruct (mkids trav ctx' path r (S i) l1) as [[[r' l2] f2]|e] eqn:EM; cbn [bind] in H; [|discriminate].
        inversion H; subst. cbn [map]. f_equal; [|eapply IH; eauto].
        destruct (Htrav _ _ _ _ _ _ _ ET) as [He Ht]. unfold erase_kid. rewrite Ht, He. reflexivity.
    - destruct (mkids trav ctx' path r (S i) lim) as [[[r' l2] f2]|e] eqn:EM; cbn [bind] in H; [|discriminate].
      inversion H; subst. cbn [map]. f_equal. eapply IH; eauto.
    - destruct (mkids trav ctx' path r (S i) lim) as [[[r' l2] f2]|e] eqn:EM; cbn [bind] in H; [|discriminate].
      inversion H; subst. cbn [map]. f_equal. eapply IH; eauto.
    - destruct (mkids trav ctx' path r (S i) lim) as [[[r' l2] f2]|e] eqn:EM; cbn [bind] in H; [|discriminate].
      inversion H; subst. cbn [map]. f_equal. eapply IH; eauto.
    - destruct (mkids trav ctx' path r (S i) lim) as [[[r' l2] f2]|e] eqn:EM; cbn [bind] in H; [|discriminate].
      inversion H; subst. cbn [map]. f_equal. eapply IH; eauto.
  Qed.

  Lemma mtraverse_erase : forall fuel ctx base el lim el' lim' f,
    mtraverse h fuel ctx base el lim = Ok (el', lim', f) -> erase_si el' = erase_si el /\ tag_of el' = tag_of el.
  Proof.
    induction fuel as [|fuel IH]; intros ctx base el lim el' lim' f H; [discriminate|].
    destruct el as [sp tg attrs kids | s | s | t0 i0 | s]; try (cbn in H; inversion H; subst; auto; fail).
    rewrite mtraverse_unfold in H. destruct lim as [|lim0]; [discriminate|].
    destruct (sub_ctx ctx attrs) as [ctx'|e] eqn:ES; cbn [bind] in H; [|discriminate].
    destruct (h ctx' base (Elem sp tg attrs kids) lim0) as [[[el1 lim1] f1]|e] eqn:EH; cbn [bind] in H; [|discriminate].
    destruct (HF _ _ _ _ _ _ _ _ _ _ EH) as (kids1 & -> & Hlen & Hsame).
    assert (E1 : erase_si (Elem sp tg attrs kids1) = erase_si (Elem sp tg attrs kids)).
    { apply frame_erase; auto. intros j k k1 H1 H2 H3. eapply (HT _ _ _ _ _ _ _ _ _ _ EH j k k1); eauto. }
    destruct f1 as [f1|].
    - inversion H; subst. auto.
    - destruct (mkids (mtraverse h fuel) ctx' base kids1 0 lim1) as [[[kids2 lim2] f2]|e] eqn:EM; cbn [bind] in H; [|discriminate].
      inversion H; subst. split; [|reflexivity]. rewrite <- E1. rewrite !erase_si_elem. f_equal.
      eapply mkids_erase; [|exact EM]. intros; eapply IH; eauto.
  Qed.
End MTraverseRules.

(* ================================================================ name-space contexts *)
Lemma lookup_prefix_app a b p :
  lookup_prefix (a ++ b) p = match lookup_prefix a p with Some v => Some v | None => lookup_prefix b p end.
Proof.
  induction a as [|[k v] r IH]; cbn; [reflexivity|]. destruct (k =?s p); [reflexivity|exact IH].
Qed.

(* SubContext pushes the element's declarations, whatever the surrounding context *)
Lemma sub_context_app : forall attrs ctx c,
  sub_context ctx attrs = Ok c -> exists d, c = d ++ ctx /\ forall ctx', sub_context ctx' attrs = Ok (d ++ ctx').
Proof.
  induction attrs as [|a r IH]; intros ctx c H; cbn [sub_context] in *.
  - inversion H. exists []. split; auto.
  - destruct (at_space a =?s "xmlns").
    + destruct ((at_key a =?s "xml") && negb (at_val a =?s XMLNamespace)); [discriminate|].
      destruct (at_key a =?s "xmlns"); [discriminate|].
      destruct (IH _ _ H) as (d & -> & Hd). exists (d ++ [(at_key a, at_val a)]). split.
      * rewrite <- app_assoc. reflexivity.
      * intros ctx'. rewrite Hd. rewrite <- app_assoc. reflexivity.
    + destruct ((at_space a =?s "") && (at_key a =?s "xmlns")).
      * destruct (at_val a =?s XMLNSNamespace); [discriminate|].
        destruct (IH _ _ H) as (d & -> & Hd). exists (d ++ [("", at_val a)]). split.
        -- rewrite <- app_assoc. reflexivity.
        -- intros ctx'. rewrite Hd. rewrite <- app_assoc. reflexivity.
      * apply IH; exact H.
Qed.

(* applying SubContext a second time (as the closures of NSFindIterateCtx / NSDetatch do) changes no look-up *)
Lemma sub_context_twice ctx attrs c1 :
  sub_context ctx attrs = Ok c1 ->
  exists c2, sub_context c1 attrs = Ok c2 /\ forall p, lookup_prefix c2 p = lookup_prefix c1 p.
Proof.
  intros H. destruct (sub_context_app _ _ _ H) as (d & -> & Hd).
  exists (d ++ d ++ ctx). split; [apply Hd|].
  intros p. rewrite !lookup_prefix_app. destruct (lookup_prefix d p); reflexivity.
Qed.

(* ================================================================ tags are preserved by the tree preparations *)
Lemma detach_shape ctx el d : detach ctx el = Ok d -> tag_of d = tag_of el /\ space_of d = space_of el /\ kids_of d = kids_of el /\ is_elem d = true.
Proof.
  unfold detach. destruct el as [sp tg attrs kids| | | |]; try discriminate.
  destruct (sub_context ctx attrs); cbn [bind]; [|discriminate]. intros H; inversion H; cbn; auto.
Qed.
Lemma detach_sorted_shape ctx el d : detach_sorted ctx el = Ok d -> tag_of d = tag_of el /\ space_of d = space_of el /\ kids_of d = kids_of el /\ is_elem d = true.
Proof.
  unfold detach_sorted. destruct (detach ctx el) as [d0|e] eqn:ED; cbn [bind]; [|discriminate].
  destruct (detach_shape _ _ _ ED) as (H1 & H2 & H3 & H4).
  destruct d0; try discriminate. intros H; inversion H; subst; cbn in *; auto.
Qed.
Lemma canonical_prep_tag seen c n : tag_of (canonical_prep seen c n) = tag_of n.
Proof. destruct n; cbn [canonical_prep]; try reflexivity. destruct (prep_attrs (sort_attrs attrs) seen). reflexivity. Qed.
Lemma exc_prep_tag ctx d incl c n p : exc_prep ctx d incl c n = Ok p -> tag_of p = tag_of n.
Proof.
  destruct n as [sp tg attrs kids| | | |]; cbn [exc_prep]; try (intros H; inversion H; reflexivity).
  destruct (sub_ctx ctx attrs) as [scope|e]; cbn [bind]; [|discriminate].
  destruct (exc_scan attrs incl) as [vis keep].
  destruct (exc_declare (sp :: vis) scope d); cbn [bind]; [|discriminate].
  match goal with |- (do kids' <- ?X; _) = _ -> _ => destruct X; cbn [bind]; [|discriminate] end.
  intros H; inversion H; reflexivity.
Qed.
Lemma si_prep_tag alg det cp : si_prep alg det = Ok cp -> tag_of (snd cp) = tag_of det.
Proof.
  unfold si_prep.
  destruct (alg =?s alg_exc).
  { destruct (exc_prep default_ctx default_ctx [] false det) eqn:E; cbn [bind]; [|discriminate]. intros H; inversion H; cbn. eapply exc_prep_tag; eauto. }
  destruct (alg =?s alg_exc_wc).
  { destruct (exc_prep default_ctx default_ctx [] true det) eqn:E; cbn [bind]; [|discriminate]. intros H; inversion H; cbn. eapply exc_prep_tag; eauto. }
  destruct ((alg =?s alg_c11) || (alg =?s alg_rec)).
  { intros H; inversion H; cbn. apply canonical_prep_tag. }
  destruct ((alg =?s alg_c11_wc) || (alg =?s alg_rec_wc)); [|discriminate].
  intros H; inversion H; cbn. apply canonical_prep_tag.
Qed.

(* ================================================================ the search for a child (NSFindOneChildCtx) *)
Lemma find_child_loop_found ctx' ns tag : forall ks i0 lim i k lim',
  find_child_loop ctx' ns tag ks i0 lim = Ok (Some (i, k), lim') ->
  exists j, i = i0 + j /\ nth_error ks j = Some k /\ tag_of k = tag /\ is_elem k = true.
Proof.
  induction ks as [|k0 r IH]; intros i0 lim i k lim' H; cbn [find_child_loop] in H; [discriminate|].
  destruct k0 as [sp tg attrs kk| | | |];
    try (destruct (IH _ _ _ _ _ H) as (j & -> & Hn & Ht & He); exists (S j); rewrite <- plus_n_Sm; cbn; auto; fail).
  destruct lim as [|lim0]; [discriminate|].
  destruct (sub_ctx ctx' attrs) as [c2|e]; cbn [bind] in H; [|discriminate].
  destruct (lookup_prefix c2 sp) as [n|]; [|discriminate].
  destruct ((n =?s ns) && (tg =?s tag)) eqn:EM.
  - inversion H; subst. exists 0. rewrite Nat.add_0_r. apply andb_prop in EM as [_ Et]. apply str_eqb_eq in Et. cbn. auto.
  - destruct (IH _ _ _ _ _ H) as (j & -> & Hn & Ht & He). exists (S j). rewrite <- plus_n_Sm. cbn. auto.
Qed.

(* ================================================================ the handler of findSignature *)
Definition fh (id : string) := find_wrap ds_ns "Signature" (inspect id).

Lemma inspect_ok id ctx path sigel lim el1 lim1 r :
  inspect id ctx path sigel lim = Ok (el1, lim1, r) ->
  exists ctx2 i si lima det ci cm cp sg sinfo,
    validate_shape sigel = true /\ sub_ctx ctx (attrs_of sigel) = Ok ctx2 /\
    find_child_loop ctx2 ds_ns "SignedInfo" (kids_of sigel) 0 lim = Ok (Some (i, si), lima) /\
    detach_sorted ctx2 si = Ok det /\
    find_one_child ctx2 det ds_ns "CanonicalizationMethod" lima = Ok (Some (ci, cm), lim1) /\
    si_prep (match select_attr "Algorithm" (attrs_of cm) with Some v => v | None => "" end) det = Ok cp /\
    el1 = replace_child sigel i (snd cp) /\
    unmarshal_signature ctx el1 = Ok sg /\ sg_signed_info sg = Some sinfo /\
    r = (if existsb (ref_matches id) (si_refs sinfo)
         then Some {| fs_path := path; fs_sig := sg; fs_si_alg := fst cp; fs_si_detached := det |} else None).
Proof.
  unfold inspect. destruct (validate_shape sigel) eqn:EV; cbn [negb]; [|discriminate].
  destruct (sub_ctx ctx (attrs_of sigel)) as [ctx2|e] eqn:ES; cbn [bind]; [|discriminate].
  destruct (find_child_loop ctx2 ds_ns "SignedInfo" (kids_of sigel) 0 lim) as [[[[i si]|] lima]|e] eqn:EF; cbn [bind]; try discriminate.
  destruct (relabel (EOther "reserved-ns") (detach_sorted ctx2 si)) as [det|e] eqn:ED; cbn [bind]; [|discriminate].
  apply relabel_ok in ED.
  destruct (find_one_child ctx2 det ds_ns "CanonicalizationMethod" lima) as [[[[ci cm]|] lim2]|e] eqn:EC; cbn [bind]; try discriminate.
  destruct (si_prep _ det) as [cp|e] eqn:EP; cbn [bind]; [|discriminate].
  destruct (unmarshal_signature ctx (replace_child sigel i (snd cp))) as [sg|e] eqn:EU; cbn [bind]; [|discriminate].
  destruct (sg_signed_info sg) as [sinfo|] eqn:ESI; [|discriminate].
  intros H. exists ctx2, i, si, lima, det, ci, cm, cp, sg, sinfo.
  destruct (existsb (ref_matches id) (si_refs sinfo)); inversion H; subst; repeat split; auto.
Qed.

Lemma inspect_frame id ctx path sp tg attrs kids lim el1 lim1 r :
  inspect id ctx path (Elem sp tg attrs kids) lim = Ok (el1, lim1, r) ->
  exists i si new, nth_error kids i = Some si /\ tag_of si = si_tag /\ tag_of new = si_tag /\
                   el1 = Elem sp tg attrs (replace_nth i new kids).
Proof.
  intros H. destruct (inspect_ok _ _ _ _ _ _ _ _ H) as (ctx2 & i & si & lima & det & ci & cm & cp & sg & sinfo & _ & _ & EF & ED & _ & EP & -> & _).
  destruct (find_child_loop_found _ _ _ _ _ _ _ _ _ EF) as (j & -> & Hn & Ht & _). cbn [kids_of Nat.add] in Hn.
  exists j, si, (snd cp). repeat split; auto.
  rewrite (si_prep_tag _ _ _ EP). destruct (detach_sorted_shape _ _ _ ED) as (-> & _). exact Ht.
Qed.

Lemma fh_cases id ctx path el lim el1 lim1 r :
  fh id ctx path el lim = Ok (el1, lim1, r) ->
  (el1 = el /\ lim1 = lim /\ r = None) \/
  (exists c2, sub_ctx ctx (attrs_of el) = Ok c2 /\ lookup_prefix c2 (space_of el) = Some ds_ns /\ tag_of el = "Signature" /\
              inspect id ctx path el lim = Ok (el1, lim1, r)).
Proof.
  unfold fh, find_wrap. destruct (sub_ctx ctx (attrs_of el)) as [c2|e] eqn:ES; cbn [bind]; [|discriminate].
  destruct (lookup_prefix c2 (space_of el)) as [ns|] eqn:EL; [|discriminate].
  destruct ((ns =?s ds_ns) && (tag_of el =?s "Signature")) eqn:EM.
  - intros H. right. apply andb_prop in EM as [E1 E2]. apply str_eqb_eq in E1, E2. subst ns. exists c2. auto.
  - intros H; inversion H; subst. left. auto.
Qed.

Lemma fh_frame id : Frame (fh id).
Proof.
  intros ctx path sp tg attrs kids lim el1 lim1 r H.
  destruct (fh_cases _ _ _ _ _ _ _ _ H) as [(-> & _ & _)|(c2 & _ & _ & _ & HI)].
  - exists kids. repeat split; auto.
  - destruct (inspect_frame _ _ _ _ _ _ _ _ _ _ _ HI) as (i & si & new & Hn & Ht & Hnew & ->).
    exists (replace_nth i new kids). split; [reflexivity|]. split; [apply length_replace_nth|].
    intros j Hj. destruct (Nat.eq_dec i j) as [->|Hne].
    + exfalso. apply (Hj si Hn). exact Ht.
    + apply nth_error_replace_nth_neq. exact Hne.
Qed.

Lemma fh_tags id : forall ctx path sp tg attrs kids lim el1 lim1 r,
  fh id ctx path (Elem sp tg attrs kids) lim = Ok (el1, lim1, r) ->
  forall j k k1, nth_error kids j = Some k -> nth_error (kids_of el1) j = Some k1 -> tag_of k = si_tag -> tag_of k1 = si_tag.
Proof.
  intros ctx path sp tg attrs kids lim el1 lim1 r H j k k1 Hk Hk1 Ht.
  destruct (fh_cases _ _ _ _ _ _ _ _ H) as [(-> & _ & _)|(c2 & _ & _ & _ & HI)].
  - cbn in Hk1. congruence.
  - destruct (inspect_frame _ _ _ _ _ _ _ _ _ _ _ HI) as (i & si & new & Hn & Htsi & Hnew & ->). cbn [kids_of] in Hk1.
    destruct (Nat.eq_dec i j) as [->|Hne].
    + rewrite (nth_error_replace_nth_eq _ _ _ _ Hn) in Hk1. inversion Hk1; subst. exact Hnew.
    + rewrite nth_error_replace_nth_neq in Hk1 by exact Hne. congruence.
Qed.

(* the element matched by NSFindIterate's closure resolves to ds:Signature in the sense of P_Ns *)
Lemma fh_match_resolves ctx0 parent attrs0 e c2 :
  sub_context parent attrs0 = Ok ctx0 -> attrs0 = attrs_of e ->
  sub_ctx ctx0 (attrs_of e) = Ok c2 -> lookup_prefix c2 (space_of e) = Some ds_ns -> tag_of e = "Signature" ->
  resolves ctx0 e ds_ns "Signature" = true.
Proof.
  intros H0 -> H1 HL HT. apply sub_ctx_ok in H1.
  destruct (sub_context_twice _ _ _ H0) as (c2' & Hc2 & Hl). rewrite Hc2 in H1. inversion H1; subst c2'.
  unfold resolves. rewrite <- Hl, HL, HT. reflexivity.
Qed.

(* ================================================================ findSignature *)
(* [OwnSignatureAt root p ctx0 e0 e1 f]: findSignature's handler accepted, as a signature OF root, the ds:Signature element
   e0 (as it stood when visited, in name-space context ctx0), which passed the shape check, leaving e1 (SignedInfo
   replaced by its canonical preparation) and the unmarshalled signature f, one of whose references matches root's ID *)
Definition OwnSignatureAt (root : node) (ctx0 : nsctx) (e0 e1 : node) (f : found_sig) : Prop :=
  exists lim0 lim1 sinfo,
    inspect (id_of root) ctx0 (fs_path f) e0 lim0 = Ok (e1, lim1, Some f) /\
    is_elem e0 = true /\ resolves ctx0 e0 ds_ns "Signature" = true /\ validate_shape e0 = true /\
    sg_signed_info (fs_sig f) = Some sinfo /\ existsb (ref_matches (id_of root)) (si_refs sinfo) = true.

Lemma halted_handler_is_inspect id ctx0 p e0 lim0 e1 lim1 f :
  fh id ctx0 p e0 lim0 = Ok (e1, lim1, Some f) ->
  inspect id ctx0 p e0 lim0 = Ok (e1, lim1, Some f) /\
  exists c2, sub_ctx ctx0 (attrs_of e0) = Ok c2 /\ lookup_prefix c2 (space_of e0) = Some ds_ns /\ tag_of e0 = "Signature".
Proof.
  intros H. destruct (fh_cases _ _ _ _ _ _ _ _ H) as [(_ & _ & Hr)|(c2 & H1 & H2 & H3 & HI)]; [discriminate|].
  split; [exact HI|]. exists c2; auto.
Qed.

Lemma inspect_some id ctx p e0 lim0 e1 lim1 f :
  inspect id ctx p e0 lim0 = Ok (e1, lim1, Some f) ->
  fs_path f = p /\ validate_shape e0 = true /\
  exists sinfo, sg_signed_info (fs_sig f) = Some sinfo /\ existsb (ref_matches id) (si_refs sinfo) = true.
Proof.
  intros H. destruct (inspect_ok _ _ _ _ _ _ _ _ H) as (ctx2 & i & si & lima & det & ci & cm & cp & sg & sinfo & HV & _ & _ & _ & _ & _ & _ & _ & HS & Hr).
  destruct (existsb (ref_matches id) (si_refs sinfo)) eqn:EX; [|discriminate].
  inversion Hr; subst f; cbn. repeat split; auto. exists sinfo; auto.
Qed.

Theorem find_signature_sound root root' f :
  find_signature root = Ok (root', f) ->
  exists ctx0 e0 e1,
    OwnSignatureAt root ctx0 e0 e1 f /\
    node_at root' (fs_path f) = Some e1 /\
    erase_si root' = erase_si root /\
    (clean root (fs_path f) -> node_at root (fs_path f) = Some e0 /\ ctx_at default_ctx root (fs_path f) = Some ctx0).
Proof.
  unfold find_signature.
  destruct (no_missing (mtraverse (find_wrap ds_ns "Signature" (inspect (id_of root))) (S traversal_limit) default_ctx [] root traversal_limit))
    as [[[r' l'] [f'|]]|e] eqn:EM; cbn [bind]; try discriminate.
  intros H; inversion H; subst r' f'. apply no_missing_ok in EM.
  change (find_wrap ds_ns "Signature" (inspect (id_of root))) with (fh (id_of root)) in EM.
  destruct (mtraverse_halt _ (fh_frame _) _ _ _ _ _ _ _ _ EM) as (p & ctx0 & e0 & lim0 & e1 & lim1 & Hcall & Hat & He0 & (parent & Hpar) & Hclean).
  cbn [app] in Hcall.
  destruct (halted_handler_is_inspect _ _ _ _ _ _ _ _ Hcall) as (HI & c2 & Hc2 & HL & HT).
  destruct (inspect_some _ _ _ _ _ _ _ _ HI) as (Hp & HV & sinfo & HS & HX). subst p.
  destruct (mtraverse_erase _ (fh_frame _) (fh_tags _) _ _ _ _ _ _ _ _ EM) as [Her _].
  exists ctx0, e0, e1. split; [|split; [exact Hat|split; [exact Her|exact Hclean]]].
  exists lim0, lim1, sinfo. repeat split; auto.
  eapply fh_match_resolves; eauto.
Qed.

Lemma ctx_at_parent : forall p ctx n e c, ctx_at ctx n p = Some c -> node_at n p = Some e ->
  exists parent, sub_context parent (attrs_of e) = Ok c.
Proof.
  induction p as [|i r IH]; intros ctx n e c Hc Hn.
  - cbn in Hn. inversion Hn; subst e. destruct n as [sp tg attrs kids| | | |]; cbn in Hc; try discriminate.
    destruct (sub_context ctx attrs) eqn:ES; [|discriminate]. inversion Hc; subst. exists ctx. exact ES.
  - destruct n as [sp tg attrs kids| | | |]; cbn in Hc; try discriminate.
    destruct (sub_context ctx attrs) eqn:ES; [|discriminate].
    cbn [node_at kids_of] in Hn. destruct (nth_error kids i); [|discriminate]. eapply IH; eauto.
Qed.

Definition find_run (root : node) :=
  mtraverse (fh (id_of root)) (S traversal_limit) default_ctx [] root traversal_limit.

(* ErrMissingSignature = the traversal ran to completion (no traversal, shape, name-space, canonicalisation-method or
   unmarshalling error on anything visited) and no ds:Signature element visited had a reference matching root's ID *)
Theorem find_missing_iff root :
  find_signature root = Err EMissingSignature <-> exists root' lim', find_run root = Ok (root', lim', None).
Proof.
  unfold find_signature, find_run, fh.
  destruct (mtraverse (find_wrap ds_ns "Signature" (inspect (id_of root))) (S traversal_limit) default_ctx [] root traversal_limit)
    as [[[r' l'] [f'|]]|e] eqn:EM; cbn [no_missing bind].
  - split; [discriminate|]. intros (a & b & H); discriminate.
  - split; eauto.
  - split; [|intros (a & b & H); discriminate]. destruct e; discriminate.
Qed.

(* on an element that resolves to ds:Signature the closure of NSFindIterate is the handler itself *)
Lemma fh_resolved id parent ctx p e lim :
  sub_context parent (attrs_of e) = Ok ctx -> resolves ctx e ds_ns "Signature" = true ->
  fh id ctx p e lim = inspect id ctx p e lim.
Proof.
  intros Hpar Hres. unfold fh, find_wrap.
  destruct (sub_context_twice _ _ _ Hpar) as (c2 & Hc2 & Hl).
  apply sub_ctx_ok in Hc2. rewrite Hc2. cbn [bind]. rewrite Hl.
  unfold resolves in Hres. destruct (lookup_prefix ctx (space_of e)) as [ns|]; [|discriminate].
  rewrite Hres. reflexivity.
Qed.

Theorem find_missing_all_inspected root :
  find_signature root = Err EMissingSignature ->
  forall p e ctx, node_at root p = Some e -> is_elem e = true -> clean root p -> ctx_at default_ctx root p = Some ctx ->
    resolves ctx e ds_ns "Signature" = true ->
    exists lim0 e1 lim1 sinfo sg,
      inspect (id_of root) ctx p e lim0 = Ok (e1, lim1, None) /\ validate_shape e = true /\
      unmarshal_signature ctx e1 = Ok sg /\ sg_signed_info sg = Some sinfo /\
      existsb (ref_matches (id_of root)) (si_refs sinfo) = false.
Proof.
  intros H p e ctx Hat He Hcl Hctx Hres. apply find_missing_iff in H as (root' & lim' & H). unfold find_run in H.
  destruct (mtraverse_complete _ (fh_frame _) _ _ _ _ _ _ _ H p e ctx Hat He Hcl Hctx) as (lim0 & e1 & lim1 & Hcall).
  cbn [app] in Hcall.
  destruct (ctx_at_parent _ _ _ _ _ Hctx Hat) as (parent & Hpar).
  rewrite (fh_resolved _ _ _ _ _ _ Hpar Hres) in Hcall.
  destruct (inspect_ok _ _ _ _ _ _ _ _ Hcall) as (ctx2 & i & si & lima & det & ci & cm & cp & sg & sinfo & HV & _ & _ & _ & _ & _ & Hel & HU & HS & Hr).
  exists lim0, e1, lim1, sinfo, sg. repeat split; auto.
  destruct (existsb (ref_matches (id_of root)) (si_refs sinfo)); [discriminate|reflexivity].
Qed.

(* the security-relevant direction: an element that carries its own signature is never reported as unsigned *)
Theorem own_signature_never_missing root p e ctx :
  node_at root p = Some e -> is_elem e = true -> clean root p -> ctx_at default_ctx root p = Some ctx ->
  resolves ctx e ds_ns "Signature" = true ->
  (forall lim0 e1 lim1 r, inspect (id_of root) ctx p e lim0 = Ok (e1, lim1, r) -> r <> None) ->
  find_signature root <> Err EMissingSignature.
Proof.
  intros Hat He Hcl Hctx Hres Hown Hm.
  destruct (find_missing_all_inspected _ Hm p e ctx Hat He Hcl Hctx Hres) as (lim0 & e1 & lim1 & _ & _ & HI & _).
  exact (Hown _ _ _ _ HI eq_refl).
Qed.

(* ================================================================ verifyCertificate *)
Section Theorems.
  Variable canon : canon_alg -> node -> option string.
  Variable digest : string -> string -> option string.
  Variable sig_ok : cert -> string -> string -> string -> bool.
  Variable parse_cert : string -> option cert.
  Variable reparse : string -> option node.

  Notation verify_certificate := (verify_certificate parse_cert).
  Notation dsig_validate := (dsig_validate canon digest sig_ok parse_cert reparse).
  Notation validate_res := (validate_res canon digest sig_ok parse_cert reparse).

  (* pick_root: the LAST store member whose DER equals the candidate's *)
  Lemma pick_root_acc store u acc c :
    fold_left (fun acc r => if c_der r =?s c_der u then Some r else acc) store acc = Some c ->
    (In c store /\ c_der c = c_der u) \/ acc = Some c.
  Proof.
    revert acc. induction store as [|x r IH]; intros acc H; cbn in H; [right; exact H|].
    destruct (IH _ H) as [[Hin Hd]|Hacc]; [left; split; [right|]; assumption|].
    destruct (c_der x =?s c_der u) eqn:E; [|right; exact Hacc].
    inversion Hacc; subst. apply str_eqb_eq in E. left. split; [left; reflexivity|exact E].
  Qed.
  Lemma pick_root_some store u c : pick_root store u = Some c -> In c store /\ c_der c = c_der u.
  Proof. unfold pick_root. intros H. destruct (pick_root_acc _ _ _ _ H) as [?|?]; [assumption|discriminate]. Qed.
  Lemma pick_root_none store u : pick_root store u = None <-> forall x, In x store -> c_der x <> c_der u.
  Proof.
    unfold pick_root.
    assert (G : forall store acc, fold_left (fun acc r => if c_der r =?s c_der u then Some r else acc) store acc = None <->
                                  acc = None /\ forall x, In x store -> c_der x <> c_der u).
    { induction store0 as [|x r IH]; intros acc; cbn.
      - split; [intros ->; split; [reflexivity|intros x []]|intros [-> _]; reflexivity].
      - rewrite IH. destruct (c_der x =?s c_der u) eqn:E.
        + split; [intros [? _]; discriminate|]. intros [_ Hn]. apply str_eqb_eq in E. exfalso. apply (Hn x); auto.
        + apply str_eqb_neq in E. split.
          * intros [-> Hn]. split; [reflexivity|]. intros y [<-|Hy]; auto.
          * intros [-> Hn]. split; [reflexivity|]. intros y Hy. apply Hn. right; exact Hy. }
    rewrite G. split; [intros [_ H]; exact H|intros H; split; [reflexivity|exact H]].
  Qed.

  Definition InWindow (c : cert) (now : instant) : Prop :=
    ibefore now (c_not_before c) = false /\ iafter now (c_not_after c) = false.
  Lemma cert_valid_at_iff c now : cert_valid_at c now = true <-> InWindow c now.
  Proof.
    unfold cert_valid_at, InWindow. destruct (ibefore now (c_not_before c)), (iafter now (c_not_after c)); cbn; split; intros; try discriminate; auto; destruct H; discriminate.
  Qed.

  (* what KeyInfo (or its absence) designates *)
  Definition Designates (store : list cert) (sg : signature) (u : cert) : Prop :=
    (exists data rest der, sg_keyinfo sg = Some (data :: rest) /\ data <> "" /\
                           base64_decode (strip_space data) = Some der /\ parse_cert der = Some u)
    \/ (sg_keyinfo sg = None /\ store = [u]).

  Lemma untrusted_cert_iff store sg u : untrusted_cert parse_cert store sg = Ok u <-> Designates store sg u.
  Proof.
    unfold untrusted_cert, Designates. destruct (sg_keyinfo sg) as [[|data rest]|].
    - split; [discriminate|]. intros [(d & r & der & H & _)|(H & _)]; discriminate.
    - destruct (data =?s "") eqn:ED.
      + apply str_eqb_eq in ED. split; [discriminate|]. intros [(d & r & der & H & Hne & _)|(H & _)]; [|discriminate].
        inversion H; subst. contradiction.
      + apply str_eqb_neq in ED. destruct (base64_decode (strip_space data)) as [der|] eqn:EB.
        * destruct (parse_cert der) as [c|] eqn:EP.
          -- split.
             ++ intros H; inversion H; subst. left. exists data, rest, der. auto.
             ++ intros [(d & r & der' & H & _ & Hb & Hp)|(H & _)]; [|discriminate]. inversion H; subst. congruence.
          -- split; [discriminate|]. intros [(d & r & der' & H & _ & Hb & Hp)|(H & _)]; [|discriminate]. inversion H; subst. congruence.
        * split; [discriminate|]. intros [(d & r & der' & H & _ & Hb & Hp)|(H & _)]; [|discriminate]. inversion H; subst. congruence.
    - destruct store as [|c [|c2 rr]].
      + split; [discriminate|]. intros [(d & r & der & H & _)|(_ & H)]; discriminate.
      + split; [intros H; inversion H; right; auto|]. intros [(d & r & der & H & _)|(_ & H)]; [discriminate|]. inversion H; reflexivity.
      + split; [discriminate|]. intros [(d & r & der & H & _)|(_ & H)]; discriminate.
  Qed.

  (* complete characterisation of verifyCertificate *)
  Theorem verify_cert_iff store now sg c :
    verify_certificate store now sg = Ok c <->
    exists u, Designates store sg u /\ pick_root store u = Some c /\ InWindow c now.
  Proof.
    unfold Dsig.verify_certificate.
    destruct (untrusted_cert parse_cert store sg) as [u|e] eqn:EU; cbn [bind].
    - apply untrusted_cert_iff in EU. destruct (pick_root store u) as [c0|] eqn:EP.
      + destruct (cert_valid_at c0 now) eqn:EV.
        * apply cert_valid_at_iff in EV. split.
          -- intros H; inversion H; subst. exists u. auto.
          -- intros (u' & Hd & Hp & Hw).
             assert (u' = u) by (destruct Hd as [(d & r & der & H1 & _ & H2 & H3)|(H1 & H2)], EU as [(d' & r' & der' & H1' & _ & H2' & H3')|(H1' & H2')]; congruence).
             subst. congruence.
        * split; [discriminate|]. intros (u' & Hd & Hp & Hw).
          assert (u' = u) by (destruct Hd as [(d & r & der & H1 & _ & H2 & H3)|(H1 & H2)], EU as [(d' & r' & der' & H1' & _ & H2' & H3')|(H1' & H2')]; congruence).
          subst. rewrite EP in Hp. inversion Hp; subst. apply cert_valid_at_iff in Hw. congruence.
      + split; [discriminate|]. intros (u' & Hd & Hp & Hw).
        assert (u' = u) by (destruct Hd as [(d & r & der & H1 & _ & H2 & H3)|(H1 & H2)], EU as [(d' & r' & der' & H1' & _ & H2' & H3')|(H1' & H2')]; congruence).
        subst. congruence.
    - split; [discriminate|]. intros (u' & Hd & _). apply untrusted_cert_iff in Hd. congruence.
  Qed.

  (* ... in the words of the property: KeyInfo present: it parses, a store member has byte-equal DER, and that member is
     inside its window; KeyInfo absent: the store has exactly one certificate, inside its window *)
  Corollary verify_cert_ok store now sg c :
    verify_certificate store now sg = Ok c ->
    In c store /\ InWindow c now /\
    ((exists data rest der u, sg_keyinfo sg = Some (data :: rest) /\ base64_decode (strip_space data) = Some der /\
                              parse_cert der = Some u /\ c_der c = c_der u)
     \/ (sg_keyinfo sg = None /\ store = [c])).
  Proof.
    intros H. apply verify_cert_iff in H as (u & Hd & Hp & Hw). destruct (pick_root_some _ _ _ Hp) as [Hin Hder].
    split; [exact Hin|split; [exact Hw|]]. destruct Hd as [(d & r & der & H1 & _ & H2 & H3)|(H1 & H2)].
    - left. exists d, r, der, u. auto.
    - right. subst store. destruct Hin as [->|[]]. auto.
  Qed.

  (* ---- store order ---- *)
  Definition Coherent (store : list cert) : Prop :=     (* byte-equal DER => same certificate (the window is parsed from the DER) *)
    forall a b, In a store -> In b store -> c_der a = c_der b -> a = b.

  Lemma pick_root_coherent store u c :
    Coherent store -> (pick_root store u = Some c <-> In c store /\ c_der c = c_der u).
  Proof.
    intros HC. split; [apply pick_root_some|]. intros [Hin Hd].
    destruct (pick_root store u) as [c'|] eqn:EP.
    - destruct (pick_root_some _ _ _ EP) as [Hin' Hd']. f_equal. apply HC; auto. congruence.
    - exfalso. rewrite pick_root_none in EP. exact (EP c Hin Hd).
  Qed.

  Theorem store_order_irrelevant store store' now sg :
    Permutation store store' -> Coherent store ->
    verify_certificate store now sg = verify_certificate store' now sg.
  Proof.
    intros HP HC.
    assert (HC' : Coherent store').
    { intros a b Ha Hb. apply HC; eapply Permutation_in; try apply Permutation_sym; eauto. }
    assert (HU : untrusted_cert parse_cert store sg = untrusted_cert parse_cert store' sg).
    { unfold untrusted_cert. destruct (sg_keyinfo sg); [reflexivity|].
      destruct store as [|c [|c2 r]].
      - apply Permutation_nil in HP. subst. reflexivity.
      - apply Permutation_length_1_inv in HP. subst. reflexivity.
      - pose proof (Permutation_length HP) as HL. destruct store' as [|d [|d2 r']]; cbn in HL; try discriminate. reflexivity. }
    unfold Dsig.verify_certificate. rewrite <- HU.
    destruct (untrusted_cert parse_cert store sg) as [u|e]; cbn [bind]; [|reflexivity].
    assert (HR : pick_root store u = pick_root store' u).
    { destruct (pick_root store u) as [c|] eqn:E1.
      - apply (pick_root_coherent _ _ _ HC) in E1 as [Hin Hd]. symmetry. apply (pick_root_coherent _ _ _ HC').
        split; [eapply Permutation_in; eauto|exact Hd].
      - symmetry. rewrite pick_root_none in *. intros x Hx. apply E1. eapply Permutation_in; [apply Permutation_sym|]; eauto. }
    rewrite HR. reflexivity.
  Qed.

  (* ---- the window is inclusive at both ends ---- *)
  Lemma ibefore_irrefl a : ibefore a a = false.
  Proof. unfold ibefore. rewrite Z.ltb_irrefl, Z.eqb_refl. cbn. apply Z.ltb_irrefl. Qed.

  Theorem window_is_inclusive c :
    ibefore (c_not_after c) (c_not_before c) = false ->                       (* a certificate with NotBefore <= NotAfter *)
    cert_valid_at c (c_not_before c) = true /\ cert_valid_at c (c_not_after c) = true /\
    (forall now, ibefore now (c_not_before c) = true -> cert_valid_at c now = false) /\
    (forall now, iafter now (c_not_after c) = true -> cert_valid_at c now = false).
  Proof.
    intros H. unfold cert_valid_at, iafter. rewrite !ibefore_irrefl, H. cbn. repeat split; auto.
    - intros now ->. reflexivity.
    - intros now ->. rewrite orb_true_r. reflexivity.
  Qed.

  (* ---- which reference is used ---- *)
  Definition zero_ref : reference := {| ref_uri := ""; ref_digest_value := ""; ref_digest_alg := ""; ref_transforms := [] |}.
  (* what "the last matching reference" would be *)
  Definition last_matching (id : string) (refs : list reference) : option reference :=
    fold_left (fun acc r => if ref_matches id r then Some r else acc) refs None.

  Theorem reference_used_is_last_of_list id refs r :
    pick_reference id refs = Some r <->
    r = last refs zero_ref /\ exists r', In r' refs /\ ref_matches id r' = true.
  Proof.
    unfold pick_reference. destruct (existsb (ref_matches id) refs) eqn:EX.
    - apply existsb_exists in EX. split; [intros H; inversion H; auto|]. intros [-> _]. reflexivity.
    - split; [discriminate|]. intros [_ (r' & Hin & Hm)].
      assert (existsb (ref_matches id) refs = true) by (apply existsb_exists; eauto). congruence.
  Qed.

  Theorem last_matching_reference_refuted :
    exists id refs, pick_reference id refs <> last_matching id refs.
  Proof.
    exists "x", [ {| ref_uri := "#x"; ref_digest_value := "a"; ref_digest_alg := ""; ref_transforms := [] |};
                  {| ref_uri := "#y"; ref_digest_value := "b"; ref_digest_alg := ""; ref_transforms := [] |} ].
    vm_compute. discriminate.
  Qed.

  (* ================================================================ Validate *)
  (* [Covered store now root v]: what an accepted element is covered by.  root' is the tree findSignature leaves behind
     (root with SignedInfo children replaced: [erase_si root' = erase_si root]). *)
  Definition Covered (store : list cert) (now : instant) (root v : node) : Prop :=
    exists root' f ctx0 e0 e1 c sinfo si_bytes data raw sin sinfo2 r want el_t calg bytes,
      (* a ds:Signature element inside root passed the shape check and carries a reference matching root's ID *)
      find_signature root = Ok (root', f) /\ OwnSignatureAt root ctx0 e0 e1 f /\
      node_at root' (fs_path f) = Some e1 /\ erase_si root' = erase_si root /\
      (clean root (fs_path f) -> node_at root (fs_path f) = Some e0 /\ ctx_at default_ctx root (fs_path f) = Some ctx0) /\
      sg_signed_info (fs_sig f) = Some sinfo /\
      (* its certificate: designated by KeyInfo (or the single store member), member of the store by DER equality, in its window *)
      In c store /\ InWindow c now /\
      (exists u, Designates store (fs_sig f) u /\ c_der c = c_der u) /\
      (* the signature verifies over the canonical form of SignedInfo (detached in its context) *)
      canon (fs_si_alg f) (fs_si_detached f) = Some si_bytes /\
      sg_value (fs_sig f) = Some data /\ base64_decode data = Some raw /\
      mem_str (si_sig_alg sinfo) known_sig_methods = true /\
      sig_ok c (si_sig_alg sinfo) si_bytes raw = true /\
      (* the references are those of the VERIFIED bytes; the one used is the last of the list, and some reference matches *)
      reparse si_bytes = Some sin /\ unmarshal_signed_info sin = Ok sinfo2 /\
      r = last (si_refs sinfo2) zero_ref /\ (exists r', In r' (si_refs sinfo2) /\ ref_matches (id_of root) r' = true) /\
      (* its digest is that of the canonical form of root' after the transforms (enveloped-signature = removal of the
         element at the signature's path) *)
      base64_decode (ref_digest_value r) = Some want /\
      transform root' (fs_path f) r = Ok (el_t, calg) /\
      canon calg el_t = Some bytes /\ digest (ref_digest_alg r) bytes = Some want /\ 20 <= String.length want /\
      (* and what is returned is the parse of exactly those bytes *)
      reparse bytes = Some v.

  Lemma id_of_erase a b : erase_si a = erase_si b -> id_of a = id_of b.
  Proof.
    destruct a as [sp tg attrs kids| | | |], b as [sp' tg' attrs' kids'| | | |]; try rewrite !erase_si_elem; intros H; try discriminate; try reflexivity.
    inversion H; subst. reflexivity.
  Qed.

  Theorem dsig_sound store now root v :
    dsig_validate store now root = DOk v -> Covered store now root v.
  Proof.
    unfold Dsig.dsig_validate, Dsig.validate_res.
    destruct (find_signature root) as [[root' f]|e] eqn:EF; cbn [bind fst snd]; [|destruct e; discriminate].
    destruct (no_missing (verify_certificate store now (fs_sig f))) as [c|e] eqn:EC; cbn [bind]; [|destruct e; discriminate].
    apply no_missing_ok in EC.
    destruct (no_missing (validate_signature canon digest sig_ok reparse root' f c)) as [v'|e] eqn:EV; [|destruct e; discriminate].
    intros H; inversion H; subst v'. apply no_missing_ok in EV.
    destruct (find_signature_sound _ _ _ EF) as (ctx0 & e0 & e1 & HO & Hat & Her & Hcl).
    destruct (verify_cert_ok _ _ _ _ EC) as (Hin & Hw & _).
    apply verify_cert_iff in EC as (u & Hdes & Hpick & _). destruct (pick_root_some _ _ _ Hpick) as [_ Hder].
    unfold validate_signature in EV.
    destruct (sg_signed_info (fs_sig f)) as [sinfo|] eqn:ESI; [|discriminate].
    unfold canonical_signed_info in EV.
    match type of EV with (do si_bytes <- relabel _ ?X; _) = _ => destruct X as [sb|e] eqn:ESB end; cbn [relabel bind] in EV; [|discriminate].
    assert (Hsb : canon (fs_si_alg f) (fs_si_detached f) = Some sb).
    { destruct (parent_ctx default_ctx root' (fs_path f)) as [pc|]; cbn [bind] in ESB; [|discriminate].
      destruct (node_at root' (fs_path f)) as [sigel|]; [|discriminate].
      destruct (find_one_child pc sigel ds_ns "SignedInfo" traversal_limit) as [[o l]|]; cbn [bind fst] in ESB; [|discriminate].
      destruct o; [|discriminate]. destruct (canon (fs_si_alg f) (fs_si_detached f)); inversion ESB; reflexivity. }
    destruct (mem_str (si_sig_alg sinfo) known_sig_methods) eqn:EK; cbn [negb] in EV; [|discriminate].
    destruct (sg_value (fs_sig f)) as [data|] eqn:ED; [|discriminate].
    destruct (base64_decode data) as [raw|] eqn:EB; [|discriminate].
    destruct (sig_ok c (si_sig_alg sinfo) sb raw) eqn:ESO; cbn [negb] in EV; [|discriminate].
    destruct (reparse sb) as [sin|] eqn:ER; [|discriminate].
    destruct (unmarshal_signed_info sin) as [sinfo2|e] eqn:EU; cbn [bind] in EV; [|discriminate].
    destruct (pick_reference (id_of root') (si_refs sinfo2)) as [r|] eqn:EPR; [|discriminate].
    apply reference_used_is_last_of_list in EPR as [Hr Hex]. rewrite (id_of_erase _ _ Her) in Hex.
    destruct (base64_decode (ref_digest_value r)) as [want|] eqn:EW; [|discriminate].
    destruct (transform root' (fs_path f) r) as [[el_t calg]|e] eqn:ET; cbn [bind fst snd] in EV; [|discriminate].
    destruct (canon calg el_t) as [bytes|] eqn:ECB; [|discriminate].
    destruct (digest (ref_digest_alg r) bytes) as [d|] eqn:EDG; [|discriminate].
    destruct (d =?s want) eqn:EQ; cbn [negb] in EV; [|discriminate]. apply str_eqb_eq in EQ. subst d.
    destruct (Nat.ltb (String.length want) 20) eqn:EL; [discriminate|]. apply Nat.ltb_ge in EL.
    destruct (reparse bytes) as [v'|] eqn:ERB; [|discriminate]. inversion EV; subst v'.
    exists root', f, ctx0, e0, e1, c, sinfo, sb, data, raw, sin, sinfo2, r, want, el_t, calg, bytes.
    repeat match goal with |- _ /\ _ => split end; auto.
    exists u; auto.
  Qed.

  (* ---- DMissing ---- *)
  Theorem missing_iff_find store now root :
    dsig_validate store now root = DMissing <-> find_signature root = Err EMissingSignature.
  Proof.
    unfold Dsig.dsig_validate, Dsig.validate_res.
    destruct (find_signature root) as [[root' f]|e] eqn:EF; cbn [bind fst snd].
    - split; [|discriminate].
      destruct (no_missing (verify_certificate store now (fs_sig f))) as [c|e] eqn:EC; cbn [bind].
      + destruct (no_missing (validate_signature canon digest sig_ok reparse root' f c)) as [v'|e] eqn:EV; [discriminate|].
        pose proof (no_missing_not_missing (validate_signature canon digest sig_ok reparse root' f c)) as HN. rewrite EV in HN.
        destruct e; try discriminate. exfalso; apply HN; reflexivity.
      + pose proof (no_missing_not_missing (verify_certificate store now (fs_sig f))) as HN. rewrite EC in HN.
        destruct e; try discriminate. exfalso; apply HN; reflexivity.
    - destruct e; split; try discriminate; auto.
  Qed.

  Theorem missing_signature_iff store now root :
    dsig_validate store now root = DMissing <-> exists root' lim', find_run root = Ok (root', lim', None).
  Proof. rewrite missing_iff_find. apply find_missing_iff. Qed.

  (* transforms: with the usual list (enveloped-signature, then one canonicalisation) the element digested is the tree
     findSignature left behind minus exactly the element at the signature's path, under that canonicaliser *)
  Definition c14n_of (t : transform_t) : option canon_alg :=
    let a := tr_alg t in
    if a =?s alg_exc then Some (CExc (prefix_list_of t) false)
    else if a =?s alg_exc_wc then Some (CExc (prefix_list_of t) true)
    else if a =?s alg_c11 then Some (C11 false)
    else if a =?s alg_c11_wc then Some (C11 true)
    else if a =?s alg_rec then Some (CRec false)
    else if a =?s alg_rec_wc then Some (CRec true)
    else None.

  Theorem transform_enveloped_then_c14n root' p r t1 t2 c0 el_t calg :
    ref_transforms r = [t1; t2] -> tr_alg t1 = alg_enveloped -> c14n_of t2 = Some c0 ->
    (transform root' p r = Ok (el_t, calg) <-> remove_at_path root' p = Some el_t /\ calg = c0).
  Proof.
    unfold transform, c14n_of. intros -> H1 H2. cbn [apply_transforms]. rewrite H1. rewrite (proj2 (str_eqb_eq _ _) eq_refl).
    destruct (remove_at_path root' p) as [el1|] eqn:ER.
    2:{ cbn [bind]. split; [discriminate|intros [? _]; discriminate]. }
    destruct (tr_alg t2 =?s alg_exc) eqn:E1.
    { apply str_eqb_eq in E1. rewrite E1. inversion H2; subst c0. cbn. split; [intros H; inversion H; auto|intros [H ->]; inversion H; reflexivity]. }
    destruct (tr_alg t2 =?s alg_exc_wc) eqn:E2.
    { apply str_eqb_eq in E2. rewrite E2. inversion H2; subst c0. cbn. split; [intros H; inversion H; auto|intros [H ->]; inversion H; reflexivity]. }
    destruct (tr_alg t2 =?s alg_c11) eqn:E3.
    { apply str_eqb_eq in E3. rewrite E3. inversion H2; subst c0. cbn. split; [intros H; inversion H; auto|intros [H ->]; inversion H; reflexivity]. }
    destruct (tr_alg t2 =?s alg_c11_wc) eqn:E4.
    { apply str_eqb_eq in E4. rewrite E4. inversion H2; subst c0. cbn. split; [intros H; inversion H; auto|intros [H ->]; inversion H; reflexivity]. }
    destruct (tr_alg t2 =?s alg_rec) eqn:E5.
    { apply str_eqb_eq in E5. rewrite E5. inversion H2; subst c0. cbn. split; [intros H; inversion H; auto|intros [H ->]; inversion H; reflexivity]. }
    destruct (tr_alg t2 =?s alg_rec_wc) eqn:E6; [|discriminate].
    apply str_eqb_eq in E6. rewrite E6. inversion H2; subst c0. cbn. split; [intros H; inversion H; auto|intros [H ->]; inversion H; reflexivity].
  Qed.

  (* ================================================================ composition with Response.v *)
  (* Response.v's oracle [dsig] instantiated with the model of goxmldsig under the configured store and the SP clock *)
  Definition CoveredAssertion (store : list cert) (now : instant) (root' : node) (a : assertion) : Prop :=
    exists i e ctx det v a0,
      subtree root' [i] = Some e /\ ctx_at default_ctx root' [i] = Some ctx /\ is_assertion ctx e = true /\
      detach ctx e = Ok det /\ Covered store now det v /\ unmarshal_assertion v = Ok a0 /\ a = flag_assertion a0.

  Theorem response_end_to_end store decrypt cfg now root r :
    cfg_skip_sig cfg = false ->
    validate_response_tree (dsig_validate store now) decrypt cfg now root = Ok r ->
    (r_signature_validated r = true /\
     exists v signed' r0, Covered store now root v /\ decrypt_assertions decrypt v = Ok signed' /\
                          unmarshal_response signed' = Ok r0 /\ r = with_flag r0 true (r_assertions r0) (r_encrypted_count r0))
    \/
    (r_signature_validated r = false /\ find_signature root = Err EMissingSignature /\
     exists root', decrypt_assertions decrypt root = Ok root' /\ Forall (CoveredAssertion store now root') (r_assertions r)).
  Proof.
    intros Hs H.
    destruct (response_sound _ _ _ _ _ _ Hs H) as [_ [(signed & signed' & r0 & Hd & Hdec & Hu & ->)|(r0 & root' & Hd & _ & Hdec & _ & -> & HV & _)]].
    - left. split; [reflexivity|]. exists signed, signed', r0. repeat split; auto. apply dsig_sound; exact Hd.
    - right. split; [reflexivity|]. split; [apply (missing_iff_find store now); exact Hd|].
      exists root'. split; [exact Hdec|]. cbn [r_assertions with_flag] in *.
      eapply Forall_impl; [|exact HV].
      intros a (i & e & ctx & det & v & a0 & H1 & H2 & H3 & H4 & H5 & H6 & H7).
      exists i, e, ctx, det, v, a0. repeat split; auto. apply dsig_sound; exact H5.
  Qed.
End Theorems.

(* ================================================================ non-vacuity *)
(* A signed document, with oracles given as plain functions: canonical forms are the strings "SI" (SignedInfo) and "BODY"
   (the rest), "sig" is the only signature that verifies (over "SI" under the store certificate), the digest of "BODY" is
   a 20-byte string. *)
Module Example.
  Definition A (k v : string) : attr := {| at_space := ""; at_key := k; at_val := v |}.
  Definition DS (tag : string) (attrs : list attr) (kids : list node) : node := Elem "ds" tag attrs kids.
  Definition digest20 := "01234567890123456789".
  Definition reference_el (uri dv : string) : node :=
    DS "Reference" [A "URI" uri]
       [DS "Transforms" [] [DS "Transform" [A "Algorithm" alg_enveloped] []; DS "Transform" [A "Algorithm" alg_exc] []];
        DS "DigestMethod" [A "Algorithm" "http://www.w3.org/2001/04/xmlenc#sha256"] [];
        DS "DigestValue" [] [Text dv]].
  Definition signed_info_el (refs : list node) : node :=
    DS "SignedInfo" []
       ([DS "CanonicalizationMethod" [A "Algorithm" alg_exc] [];
         DS "SignatureMethod" [A "Algorithm" "http://www.w3.org/2001/04/xmldsig-more#rsa-sha256"] []] ++ refs).
  Definition signature_el (refs : list node) : node :=
    Elem "ds" "Signature" [{| at_space := "xmlns"; at_key := "ds"; at_val := ds_ns |}]
         [signed_info_el refs; DS "SignatureValue" [] [Text "c2ln"]].      (* base64 of "sig" *)
  Definition body : node := Elem "" "Root" [A "ID" "x"] [Elem "" "Item" [] [Text "hello"]].
  Definition doc (refs : list node) : node :=
    Elem "" "Root" [A "ID" "x"] [Elem "" "Item" [] [Text "hello"]; signature_el refs].
  Definition the_cert : cert := {| c_der := "DER"; c_not_before := {| i_sec := 100; i_nsec := 0 |}; c_not_after := {| i_sec := 200; i_nsec := 0 |} |}.
  Definition canon (a : canon_alg) (n : node) : option string := if tag_of n =?s "SignedInfo" then Some "SI" else Some "BODY".
  Definition digest (alg bytes : string) : option string := if bytes =?s "BODY" then Some digest20 else Some "00000000000000000000".
  Definition sig_ok (c : cert) (alg msg sg : string) : bool := (c_der c =?s "DER") && (msg =?s "SI") && (sg =?s "sig").
  Definition parse_cert (der : string) : option cert := None.
  (* the verified SignedInfo bytes are parsed again: the oracle hands back the SignedInfo with the name space declared *)
  Definition reparse (refs : list node) (b : string) : option node :=
    if b =?s "SI" then Some (match signed_info_el refs with
                             | Elem sp tg attrs kids => Elem sp tg ({| at_space := "xmlns"; at_key := "ds"; at_val := ds_ns |} :: attrs) kids
                             | other => other end)
    else if b =?s "BODY" then Some body else None.
  Definition good_ref := reference_el "#x" (base64_encode digest20).
  Definition run (refs : list node) (store : list cert) (sec : Z) (root : node) :=
    dsig_validate canon digest sig_ok parse_cert (reparse refs) store {| i_sec := sec; i_nsec := 0 |} root.

  (* accepted: single store member, no KeyInfo, clock inside the window; also AT both bounds *)
  Example accepted : run [good_ref] [the_cert] 150 (doc [good_ref]) = DOk body.
  Proof. vm_compute. reflexivity. Qed.
  Example accepted_at_not_before : run [good_ref] [the_cert] 100 (doc [good_ref]) = DOk body.
  Proof. vm_compute. reflexivity. Qed.
  Example accepted_at_not_after : run [good_ref] [the_cert] 200 (doc [good_ref]) = DOk body.
  Proof. vm_compute. reflexivity. Qed.
  Example rejected_one_second_early : run [good_ref] [the_cert] 99 (doc [good_ref]) = DErr.
  Proof. vm_compute. reflexivity. Qed.
  Example rejected_one_second_late : run [good_ref] [the_cert] 201 (doc [good_ref]) = DErr.
  Proof. vm_compute. reflexivity. Qed.
  (* no KeyInfo and two store members: fatal, not 'missing' *)
  Example two_members_no_keyinfo : run [good_ref] [the_cert; the_cert] 150 (doc [good_ref]) = DErr.
  Proof. vm_compute. reflexivity. Qed.
  (* an element without signature, and one whose only signature points elsewhere: missing *)
  Example unsigned_is_missing : run [] [the_cert] 150 body = DMissing.
  Proof. vm_compute. reflexivity. Qed.
  Example reference_elsewhere_is_missing :
    run [reference_el "#other" (base64_encode digest20)] [the_cert] 150 (doc [reference_el "#other" (base64_encode digest20)]) = DMissing.
  Proof. vm_compute. reflexivity. Qed.
  (* tampered content: the canonical form is no longer "BODY" for the digest oracle *)
  Example bad_digest_is_fatal :
    run [reference_el "#x" (base64_encode "00000000000000000001")] [the_cert] 150 (doc [reference_el "#x" (base64_encode "00000000000000000001")]) = DErr.
  Proof. vm_compute. reflexivity. Qed.
  (* the reference USED is the last of the list: a genuine matching reference followed by a non-matching one whose digest
     is something else is rejected (under 'last matching reference wins' it would be accepted) ... *)
  Definition other_ref := reference_el "#other" (base64_encode "00000000000000000000").
  Example last_reference_of_the_list_is_used : run [good_ref; other_ref] [the_cert] 150 (doc [good_ref; other_ref]) = DErr.
  Proof. vm_compute. reflexivity. Qed.
  (* ... and in the other order it is accepted *)
  Example non_matching_reference_first_is_ignored : run [other_ref; good_ref] [the_cert] 150 (doc [other_ref; good_ref]) = DOk body.
  Proof. vm_compute. reflexivity. Qed.
  (* the traversal limit: 1000 filler elements before the signature exhaust it *)
  Definition fillers (n : nat) : list node := repeat (Elem "" "f" [] []) n.
  Definition big_doc (n : nat) : node :=
    Elem "" "Root" [A "ID" "x"] (fillers n ++ [signature_el [good_ref]]).
  Example limit_reached : find_signature (big_doc 1000) = Err (EOther "limit").
  Proof. vm_compute. reflexivity. Qed.
  Example limit_not_reached : exists r f, find_signature (big_doc 996) = Ok (r, f) /\ fs_path f = [996].
  Proof. eexists. eexists. vm_compute. split; reflexivity. Qed.
End Example.
