(* P_PipelineOut.v — outbound compositions of the TRANSLATED units of this run.

   BuildAuthURL      = buildAuthURLFromDocument (GenRedirect.v) applied to what BuildAuthRequestDocument (GenSign.v, calling
                       buildAuthnRequest of GenBuild.v) returns;
   BuildAuthBodyPost = buildAuthBodyPostFromDocument (GenPost.v) applied to the signed or the unsigned document builder's result,
                       chosen by SignAuthnRequests.
   The units take "the document a callee returned" as a parameter; here the parameter IS the translated callee's result, and the
   composition is proved equal to the composition of the hand-written models, for all inputs and oracle behaviours.  The three
   views of the SP (sign_cfg for the builders, rsp for the redirect unit, post_config for the POST unit) are independent
   arguments: they are projections of one Go struct. *)
From V Require Import Base Time Xml Generated Build Redirect PostForm Keys
     GenPrelude GenPreludeB GenPreludeSign GenPreludeRedirect GenPreludePost
     GenBuild GenSign GenRedirect GenPost P_GenBuild P_GenSign P_GenRedirect P_GenPost.
Local Open Scope string_scope.

Section Out.
  Variable sign_el : node -> res node.                           (* the enveloped-signature step of the builders *)
  Variable url_parse : string -> option gurl.
  Variable write_doc : node -> res string.                       (* Document.WriteToString *)
  Variable fl_write : list string -> string -> string.
  Variable fl_close : list string -> string.
  Variable sign : hash_alg -> string -> option string.           (* SignString on the query octets *)
  Variable write_bytes : node -> res string.                     (* Document.WriteToBytes *)

  (* running a pm-valued producer into a consumer of its value *)
  Definition pm_bind {A B} (p : pm A) (k : A -> pm B) : pm B := match p with PVal a => k a | PPanic => PPanic end.

  (* sp.BuildAuthURL(relayState) *)
  Theorem source_BuildAuthURL_composed (sc : sign_cfg) (rs : rsp) now id relay :
    pm_bind (G_BuildAuthRequestDocument sign_el sc now id)
            (fun d => G_BuildAuthURL url_parse write_doc fl_write fl_close sign rs relay d)
    = PVal (do doc <- (if Build.b_sign_authn_requests (sc_b sc) then sign_el (Build.build_authn_request (sc_b sc) id now)
                       else Ok (Build.build_authn_request (sc_b sc) id now));
            url_of fl_write fl_close (url_parse (rsp_sso_url rs)) (write_doc doc)
              (fun parsed => build_auth_url_from_document sign (rsp_cfg rs) parsed relay)).
  Proof.
    rewrite G_BuildAuthRequestDocument_is_model. unfold pm_bind, P_GenBuild.built.
    destruct (Build.b_sign_authn_requests (sc_b sc)).
    - rewrite (G_BuildAuthURL_is_model url_parse write_doc fl_write fl_close sign rs relay (sign_el (Build.build_authn_request (sc_b sc) id now))).
      reflexivity.
    - change (Ok (Some (Build.build_authn_request (sc_b sc) id now))) with (res_some (Ok (Build.build_authn_request (sc_b sc) id now))).
      rewrite (G_BuildAuthURL_is_model url_parse write_doc fl_write fl_close sign rs relay (Ok (Build.build_authn_request (sc_b sc) id now))).
      reflexivity.
  Qed.

  (* sp.BuildAuthBodyPost(relayState): both builders are evaluated here (the Go code calls only the chosen one; the other's
     value is not used by the translated body, which the equality shows) *)
  Theorem source_BuildAuthBodyPost_composed (sc : sign_cfg) (pc : post_config) now id relay :
    pm_bind (G_BuildAuthRequestDocument sign_el sc now id) (fun dsig =>
    pm_bind (G_BuildAuthRequestDocumentNoSig sign_el sc now id) (fun dnosig =>
      G_BuildAuthBodyPost write_bytes pc relay (Build.b_sign_authn_requests (sc_b sc)) dsig dnosig))
    = PVal (build_auth_body_post write_bytes pc relay (Build.b_sign_authn_requests (sc_b sc))
              (if Build.b_sign_authn_requests (sc_b sc) then sign_el (Build.build_authn_request (sc_b sc) id now)
               else Ok (Build.build_authn_request (sc_b sc) id now))
              (Ok (Build.build_authn_request (sc_b sc) id now))).
  Proof.
    rewrite G_BuildAuthRequestDocument_is_model, G_BuildAuthRequestDocumentNoSig_is_model. unfold pm_bind, P_GenBuild.built.
    change (Ok (Some (Build.build_authn_request (sc_b sc) id now))) with (res_some (Ok (Build.build_authn_request (sc_b sc) id now))).
    destruct (Build.b_sign_authn_requests (sc_b sc)) eqn:E.
    - exact (G_BuildAuthBodyPost_is_model write_bytes pc relay true (sign_el (Build.build_authn_request (sc_b sc) id now))
               (Ok (Build.build_authn_request (sc_b sc) id now))).
    - exact (G_BuildAuthBodyPost_is_model write_bytes pc relay false (Ok (Build.build_authn_request (sc_b sc) id now))
               (Ok (Build.build_authn_request (sc_b sc) id now))).
  Qed.
End Out.
