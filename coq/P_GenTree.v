(* P_GenTree.v — the tree-level entry points as TRANSLATED from /repo on this run (GenTree.v) compute, for every encoded
   message, configuration, clock and every behaviour of the parse / signature / decryption oracles, what the hand-written
   model Response.v computes — up to the text of fmt.Errorf / dependency errors (EOther labels).  Consequently the theorems
   of C01 C02 C03 C04 C07 C10 about Response.v are theorems about the source text of this run, and the translated bodies
   never panic (no nil dereference of an element, document or decoded struct). *)
From V Require Import Base Time Xml Ns Types Generated Decode Profile Response Keys GenPrelude GenPreludeD GenPreludeT GenFuncs GenTree
     P_Ns P_GenFuncs.
Local Open Scope string_scope.
Local Open Scope list_scope.

Definition norm_err (e : err) : err := match e with EOther _ => EOther "" | e => e end.
Definition norm_res {A} (r : res A) : res A := match r with Ok a => Ok a | Err e => Err (norm_err e) end.
Definition norm_pm {A} (p : pm (res A)) : pm (res A) := match p with PVal r => PVal (norm_res r) | PPanic => PPanic end.

(* what the entry points do before the tree-level model starts: base64, parseResponse *)
Definition entry {A} (parse : string -> res node) (enc : string) (k : node -> res A) : res (option A) :=
  match b64_decode enc with
  | Err e => Err e
  | Ok raw => match parse raw with Err e => Err e | Ok root => res_some (k root) end
  end.

Lemma unmarshal_into_zero_lr el : unmarshal_into_logout_response el zero_logout_response = Some (unmarshal_logout_response el).
Proof. reflexivity. Qed.
Lemma unmarshal_into_zero_lq el : unmarshal_into_logout_request el zero_logout_request = Some (unmarshal_logout_request el).
Proof. reflexivity. Qed.
Lemma unmarshal_into_zero_r el : unmarshal_into_response el zero_response = Some (unmarshal_response el).
Proof. reflexivity. Qed.
Lemma unmarshal_into_zero_a el : unmarshal_into_assertion el zero_assertion = Some (unmarshal_assertion el).
Proof. reflexivity. Qed.

(* ---- NSFindIterate: the panic-aware traversal simulates the model's traversal under a relation between the states ---- *)
Section PmRules.
  Context {S : Type}.
  Variable hp : nsctx -> list nat -> node -> S -> pm (res S).

  Fixpoint go_pm (ctx' : nsctx) (path : list nat) (ks : list node) (i : nat) (st : nat * S) : pm (res (nat * S)) :=
    match ks with
    | [] => PVal (Ok st)
    | k :: r =>
        match k with
        | Elem _ _ _ _ =>
            match traverse_pm hp ctx' (path ++ [i]) k st with
            | PPanic => PPanic
            | PVal (Err e) => PVal (Err e)
            | PVal (Ok st') => go_pm ctx' path r (Datatypes.S i) st'
            end
        | _ => go_pm ctx' path r (Datatypes.S i) st
        end
    end.

  Lemma traverse_pm_unfold ctx path sp tg attrs kids st :
    traverse_pm hp ctx path (Elem sp tg attrs kids) st =
    match fst st with
    | O => PVal (Err (EOther "traversal limit reached"))
    | Datatypes.S lim' =>
        match sub_context ctx attrs with
        | Err e => PVal (Err e)
        | Ok ctx' =>
            match hp ctx' path (Elem sp tg attrs kids) (snd st) with
            | PPanic => PPanic
            | PVal (Err e) => PVal (Err e)
            | PVal (Ok s') => go_pm ctx' path kids O (lim', s')
            end
        end
    end.
  Proof.
    cbn [traverse_pm]. destruct (fst st); [reflexivity|].
    destruct (sub_context ctx attrs) as [ctx'|e]; [|reflexivity].
    destruct (hp ctx' path (Elem sp tg attrs kids) (snd st)) as [[s'|e]|]; try reflexivity.
    generalize O at 1 2. generalize (n, s').
    induction kids as [|k r IH]; intros st0 i; [reflexivity|].
    destruct k as [sp' tg' at' ks'| | | | ]; cbn [go_pm]; try apply IH.
    destruct (traverse_pm hp ctx' (path ++ [i]) (Elem sp' tg' at' ks') st0) as [[st'|e]|]; try reflexivity. apply IH.
  Qed.
End PmRules.

Definition rel_out {A B} (RR : A -> B -> Prop) (p : pm (res A)) (r : res B) : Prop :=
  match p, r with
  | PVal (Ok a), Ok b => RR a b
  | PVal (Err e1), Err e2 => norm_err e1 = norm_err e2
  | _, _ => False
  end.

Section Sim.
  Context {S T : Type}.
  Variable R : S -> T -> Prop.
  Variable hp : nsctx -> list nat -> node -> S -> pm (res S).
  Variable h : nsctx -> list nat -> node -> T -> res T.
  Hypothesis H : forall c p e s t, R s t -> rel_out R (hp c p e s) (h c p e t).

  Definition R2 (a : nat * S) (b : nat * T) : Prop := fst a = fst b /\ R (snd a) (snd b).

  Lemma traverse_sim : forall el ctx path a b, R2 a b ->
    rel_out R2 (traverse_pm hp ctx path el a) (traverse h ctx path el b).
  Proof.
    induction el as [sp tg attrs kids IHk | | | | ] using node_ind'; intros ctx path [n sa] [n' tb] [Hn HR]; cbn [fst snd] in *; subst n';
      try (cbn; split; [reflexivity|exact HR]).
    rewrite traverse_pm_unfold, traverse_unfold. cbn [fst snd].
    destruct n as [|lim]; [reflexivity|].
    destruct (sub_context ctx attrs) as [ctx'|e]; cbn [bind]; [|reflexivity].
    pose proof (H ctx' path (Elem sp tg attrs kids) sa tb HR) as Hh. unfold rel_out in Hh.
    destruct (hp ctx' path (Elem sp tg attrs kids) sa) as [[s'|e1]|]; destruct (h ctx' path (Elem sp tg attrs kids) tb) as [t'|e2];
      cbn [bind]; try contradiction; [|exact Hh].
    assert (HG : forall i a b, R2 a b -> rel_out R2 (go_pm hp ctx' path kids i a) (go h ctx' path kids i b)).
    { clear Hh. induction IHk as [|k r Hk _ IHr]; intros i a b Hab; [exact Hab|].
      destruct k as [sp' tg' at' ks'| | | | ]; cbn [go_pm go]; try (apply IHr; exact Hab).
      pose proof (Hk ctx' (path ++ [i]) a b Hab) as Ht. unfold rel_out in Ht.
      destruct (traverse_pm hp ctx' (path ++ [i]) (Elem sp' tg' at' ks') a) as [[a'|e1]|];
        destruct (traverse h ctx' (path ++ [i]) (Elem sp' tg' at' ks') b) as [b'|e2]; cbn [bind]; try contradiction; [|exact Ht].
      apply IHr. exact Ht. }
    apply HG. split; [reflexivity|exact Hh].
  Qed.
End Sim.

Lemma find_iterate_sim {S T} (R : S -> T -> Prop) hp h ns tag :
  (forall c p e s t, R s t -> rel_out R (hp c p e s) (h c p e t)) ->
  forall el s t, R s t -> rel_out R (find_iterate_pm ns tag hp el s) (find_iterate ns tag h el t).
Proof.
  intros H el s t HR. unfold find_iterate_pm, find_iterate.
  match goal with |- context [traverse_pm ?f _ _ _ _] => set (hp' := f) end.
  match goal with |- context [traverse ?f _ _ _ _] => set (h' := f) end.
  assert (H' : forall c p e s t, R s t -> rel_out R (hp' c p e s) (h' c p e t)).
  { intros c p e s0 t0 HR0. unfold hp', h'. destruct (lookup_prefix c (space_of e)); [|reflexivity].
    destruct ((s1 =?s ns) && (tag_of e =?s tag)); [apply H; exact HR0|exact HR0]. }
  pose proof (traverse_sim R hp' h' H' el default_ctx [] (traversal_limit, s) (traversal_limit, t) (conj eq_refl HR)) as HT.
  unfold rel_out in HT.
  destruct (traverse_pm hp' default_ctx [] el (traversal_limit, s)) as [[a|e1]|];
    destruct (traverse h' default_ctx [] el (traversal_limit, t)) as [b|e2]; cbn [bind]; try contradiction; [|exact HT].
  exact (proj2 HT).
Qed.

Section Tie.
  Variable parse : string -> res node.
  Variable dsig : node -> dsig_result.
  Variable decrypt : node -> res node.

  Ltac lr_tail :=
    rewrite unmarshal_into_zero_lr;
    match goal with |- context [unmarshal_logout_response ?x] => destruct (unmarshal_logout_response x) as [r|e] end;
    cbn [other err_of_res is_nil negb bind]; [|reflexivity];
    rewrite G_ValidateDecodedLogoutResponse_eq; unfold set_lr_signature_validated;
    match goal with |- context [validate_logout_response ?c ?x] => destruct (validate_logout_response c x) as [[]|e'] end;
    cbn [err_of_res is_nil negb bind res_some norm_res norm_pm]; reflexivity.
  Ltac lq_tail :=
    rewrite unmarshal_into_zero_lq;
    match goal with |- context [unmarshal_logout_request ?x] => destruct (unmarshal_logout_request x) as [r|e] end;
    cbn [other err_of_res is_nil negb bind]; [|reflexivity];
    rewrite G_ValidateDecodedLogoutRequest_eq; unfold set_lq_signature_validated;
    match goal with |- context [validate_logout_request ?c ?x] => destruct (validate_logout_request c x) as [[]|e'] end;
    cbn [err_of_res is_nil negb bind res_some norm_res norm_pm]; reflexivity.

  Theorem G_ValidateEncodedLogoutResponsePOST_is_model cfg now enc :
    norm_pm (G_ValidateEncodedLogoutResponsePOST parse dsig cfg now enc)
    = PVal (norm_res (entry parse enc (validate_logout_response_tree dsig cfg))).
  Proof.
    unfold G_ValidateEncodedLogoutResponsePOST, entry, run_fn.
    destruct (b64_decode enc) as [raw|e]; cbn [err_of_res is_nil negb]; [|reflexivity].
    unfold parse_call. destruct (parse raw) as [root|e]; cbn [err_of_res is_nil negb]; [|reflexivity].
    unfold validate_logout_response_tree, logout_signature_step.
    destruct (cfg_skip_sig cfg); cbn [negb bindc bind fst snd].
    - lr_tail.
    - unfold ves_call, dsig_call. destruct (validate_element_signature dsig root) as [v| |];
        cbn [err_of_res ptr_of_res is_missing_signature is_nil negb bindc bind fst snd norm_res norm_pm res_some norm_err]; try reflexivity; lr_tail.
  Qed.

  Theorem G_ValidateEncodedLogoutRequestPOST_is_model cfg now enc :
    norm_pm (G_ValidateEncodedLogoutRequestPOST parse dsig cfg now enc)
    = PVal (norm_res (entry parse enc (validate_logout_request_tree dsig cfg))).
  Proof.
    unfold G_ValidateEncodedLogoutRequestPOST, entry, run_fn.
    destruct (b64_decode enc) as [raw|e]; cbn [err_of_res is_nil negb]; [|reflexivity].
    unfold parse_call. destruct (parse raw) as [root|e]; cbn [err_of_res is_nil negb]; [|reflexivity].
    unfold validate_logout_request_tree, logout_signature_step.
    destruct (cfg_skip_sig cfg); cbn [negb bindc bind fst snd].
    - lq_tail.
    - unfold ves_call, dsig_call. destruct (validate_element_signature dsig root) as [v| |];
        cbn [err_of_res ptr_of_res is_missing_signature is_nil negb bindc bind fst snd norm_res norm_pm res_some norm_err]; try reflexivity; lq_tail.
  Qed.

  Theorem G_ValidateEncodedResponse_is_model cfg now enc :
    norm_pm (G_ValidateEncodedResponse parse dsig (decrypt_assertions decrypt) cfg now enc)
    = PVal (norm_res (entry parse enc (validate_response_tree dsig decrypt cfg now))).
  Proof.
    unfold G_ValidateEncodedResponse, entry, run_fn.
    destruct (b64_decode enc) as [raw|e]; cbn [err_of_res is_nil negb]; [|reflexivity].
    unfold parse_call. destruct (parse raw) as [root|e]; cbn [err_of_res is_nil negb]; [|reflexivity].
    unfold validate_response_tree.
    destruct (cfg_skip_sig cfg); cbn [negb bindc bind fst snd].
    - rewrite unmarshal_into_zero_r. destruct (unmarshal_response root) as [r|e]; cbn [other err_of_res is_nil negb bind]; [|reflexivity].
      rewrite G_Validate_eq. unfold set_r_signature_validated.
      destruct (validate cfg now _) as [[]|e']; cbn [err_of_res is_nil negb bind res_some norm_res norm_pm]; reflexivity.
    - unfold ves_call, dsig_call. destruct (validate_element_signature dsig root) as [v| |];
        cbn [err_of_res ptr_of_res is_missing_signature is_nil negb bindc bind fst snd norm_res norm_pm res_some norm_err]; try reflexivity.
      + (* signed Response *)
        unfold decrypt_call. destruct (decrypt_assertions decrypt v) as [v'|e]; cbn [err_of_res is_nil negb bind]; [|reflexivity].
        rewrite unmarshal_into_zero_r. destruct (unmarshal_response v') as [r|e]; cbn [other err_of_res is_nil negb bind]; [|reflexivity].
        rewrite G_Validate_eq. unfold set_r_signature_validated.
        destruct (validate cfg now _) as [[]|e']; cbn [err_of_res is_nil negb bind res_some norm_res norm_pm]; reflexivity.
      + (* unsigned Response *)
        rewrite unmarshal_into_zero_r. destruct (unmarshal_response root) as [r0|e]; cbn [other err_of_res is_nil negb bind]; [|reflexivity].
        unfold decrypt_call. destruct (decrypt_assertions decrypt root) as [root'|e]; cbn [err_of_res is_nil negb bind]; [|reflexivity].
        unfold signed_assertions.
        match goal with |- context [find_iterate_pm _ _ ?hp root' ?s0] => set (HP := hp); set (S0 := s0) end.
        pose proof (find_iterate_sim (fun s t => s = (None, Some root', false, with_flag r0 false t 0, None)) HP (assertion_handler dsig)
                      c_SAMLAssertionNamespace c_AssertionTag) as SIM.
        assert (HH : forall c p e s t, s = (None, Some root', false, with_flag r0 false t 0, None) ->
                     rel_out (fun s t => s = (None, Some root', false, with_flag r0 false t 0, None)) (HP c p e s) (assertion_handler dsig c p e t)).
        { intros c p e s t ->. unfold HP, assertion_handler, run_fn.
          destruct p as [|i [|j p']]; cbn [parent_of pref_is_nil pref_is_start pref_tag negb]; [reflexivity| |reflexivity].
          destruct (detach c e) as [det|ed]; cbn [res_some err_of_res ptr_of_res is_nil negb other bind]; [|reflexivity].
          destruct (dsig det) as [v| |]; cbn [err_of_res ptr_of_res is_nil negb]; try reflexivity.
          rewrite unmarshal_into_zero_a. destruct (unmarshal_assertion v) as [a|ea]; cbn [err_of_res is_nil negb other bind]; reflexivity. }
        specialize (SIM HH root' S0 [] eq_refl). unfold rel_out in SIM.
        destruct (find_iterate_pm c_SAMLAssertionNamespace c_AssertionTag HP root' S0) as [[st|e1]|];
          destruct (find_iterate c_SAMLAssertionNamespace c_AssertionTag (assertion_handler dsig) root' []) as [acc|e2];
          try contradiction; cbn [bind].
        * subst st. cbn [err_of_res is_nil negb bindc]. rewrite G_Validate_eq.
          destruct (validate cfg now (with_flag r0 false acc 0)) as [[]|e']; cbn [err_of_res is_nil negb bind res_some norm_res norm_pm]; reflexivity.
        * unfold S0. cbn [err_of_res is_nil negb bindc norm_pm norm_res res_some]. now rewrite SIM.
  Qed.

  (* ---- consequences for the source text of this run ---- *)
  Lemma norm_pm_val {A} (p : pm (res A)) (m : res A) : norm_pm p = PVal (norm_res m) ->
    (exists r, p = PVal r) /\ (forall a, p = PVal (Ok a) <-> m = Ok a).
  Proof.
    intros H. destruct p as [[a|e]|]; cbn in H; try discriminate; (split; [eexists; reflexivity|]); intros a'; destruct m as [b|e']; cbn in H;
      try discriminate; split; intros E; inversion E; subst; inversion H; subst; reflexivity.
  Qed.

  Theorem G_entry_points_never_panic cfg now enc :
    (exists r, G_ValidateEncodedResponse parse dsig (decrypt_assertions decrypt) cfg now enc = PVal r) /\
    (exists r, G_ValidateEncodedLogoutResponsePOST parse dsig cfg now enc = PVal r) /\
    (exists r, G_ValidateEncodedLogoutRequestPOST parse dsig cfg now enc = PVal r).
  Proof.
    split; [|split].
    - exact (proj1 (norm_pm_val _ _ (G_ValidateEncodedResponse_is_model cfg now enc))).
    - exact (proj1 (norm_pm_val _ _ (G_ValidateEncodedLogoutResponsePOST_is_model cfg now enc))).
    - exact (proj1 (norm_pm_val _ _ (G_ValidateEncodedLogoutRequestPOST_is_model cfg now enc))).
  Qed.

  Lemma entry_ok {A} (k : node -> res A) enc (a : A) :
    entry parse enc k = Ok (Some a) <-> exists raw root, b64_decode enc = Ok raw /\ parse raw = Ok root /\ k root = Ok a.
  Proof.
    unfold entry. split.
    - destruct (b64_decode enc) as [raw|]; [|discriminate]. destruct (parse raw) as [root|] eqn:EP; [|discriminate].
      destruct (k root) as [a'|] eqn:E; cbn; [|discriminate]. intros H; inversion H; subst. exists raw, root. auto.
    - intros (raw & root & E1 & E2 & E3). rewrite E1, E2, E3. reflexivity.
  Qed.

  (* the source accepts exactly when (and with exactly the struct that) the model accepts *)
  Theorem G_ValidateEncodedResponse_accepts_iff cfg now enc (r : response) :
    G_ValidateEncodedResponse parse dsig (decrypt_assertions decrypt) cfg now enc = PVal (Ok (Some r))
    <-> exists raw root, b64_decode enc = Ok raw /\ parse raw = Ok root /\ validate_response_tree dsig decrypt cfg now root = Ok r.
  Proof.
    rewrite <- entry_ok. exact (proj2 (norm_pm_val _ _ (G_ValidateEncodedResponse_is_model cfg now enc)) (Some r)).
  Qed.
  Theorem G_ValidateEncodedLogoutResponsePOST_accepts_iff cfg now enc (r : logout_response) :
    G_ValidateEncodedLogoutResponsePOST parse dsig cfg now enc = PVal (Ok (Some r))
    <-> exists raw root, b64_decode enc = Ok raw /\ parse raw = Ok root /\ validate_logout_response_tree dsig cfg root = Ok r.
  Proof.
    rewrite <- entry_ok. exact (proj2 (norm_pm_val _ _ (G_ValidateEncodedLogoutResponsePOST_is_model cfg now enc)) (Some r)).
  Qed.
  Theorem G_ValidateEncodedLogoutRequestPOST_accepts_iff cfg now enc (r : logout_request) :
    G_ValidateEncodedLogoutRequestPOST parse dsig cfg now enc = PVal (Ok (Some r))
    <-> exists raw root, b64_decode enc = Ok raw /\ parse raw = Ok root /\ validate_logout_request_tree dsig cfg root = Ok r.
  Proof.
    rewrite <- entry_ok. exact (proj2 (norm_pm_val _ _ (G_ValidateEncodedLogoutRequestPOST_is_model cfg now enc)) (Some r)).
  Qed.
  (* a typed gosaml2 error or dsig.ErrMissingSignature returned by the source is the model's error *)
  Theorem G_ValidateEncodedResponse_error_iff cfg now enc (e : err) :
    (forall w, e <> EOther w) ->
    (G_ValidateEncodedResponse parse dsig (decrypt_assertions decrypt) cfg now enc = PVal (Err e)
     <-> entry parse enc (validate_response_tree dsig decrypt cfg now) = Err e).
  Proof.
    intros He. pose proof (G_ValidateEncodedResponse_is_model cfg now enc) as H.
    destruct (G_ValidateEncodedResponse parse dsig (decrypt_assertions decrypt) cfg now enc) as [[a|e1]|];
      destruct (entry parse enc (validate_response_tree dsig decrypt cfg now)) as [b|e2]; cbn in H; try discriminate;
      split; intros E; inversion E; subst; inversion H as [H1];
      try (destruct e; destruct e2; cbn in H1; try discriminate; try congruence; exfalso; eapply He; reflexivity);
      try (destruct e; destruct e1; cbn in H1; try discriminate; try congruence; exfalso; eapply He; reflexivity).
  Qed.
End Tie.
