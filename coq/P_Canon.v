(* P_Canon.v — layout-invariance theorems about Canon.v (goxmldsig's canonicalisers as a function), for all trees. *)
From Coq Require Import Permutation Sorted Lia.
From Coq Require OrderedTypeEx.
From V Require Import Base Time Escape EscapeProofs Xml Ns Schema CorrDiff Build Dsig P_Dsig P_DsigExact Canon.
Local Open Scope string_scope.
Local Open Scope list_scope.

(* ================================================================ 0. the nested fixpoints, named *)
Fixpoint cprep_kids (seen : list (string * string)) (comments : bool) (ks : list node) : list node :=
  match ks with
  | [] => []
  | k :: r => if negb comments && is_comment k then cprep_kids seen comments r
              else canonical_prep seen comments k :: cprep_kids seen comments r
  end.

Lemma canonical_prep_elem seen c sp tg attrs kids :
  canonical_prep seen c (Elem sp tg attrs kids) =
  Elem sp tg (fst (prep_attrs (sort_attrs attrs) seen)) (cprep_kids (snd (prep_attrs (sort_attrs attrs) seen)) c kids).
Proof.
  cbn [canonical_prep]. destruct (prep_attrs (sort_attrs attrs) seen) as [a' s']. cbn [fst snd]. f_equal.
  induction kids as [|k r IH]; [reflexivity|]. cbn [cprep_kids]. rewrite <- IH. reflexivity.
Qed.

Fixpoint eprep_kids (scope declared : nsctx) (incl : list string) (comments : bool) (ks : list node) : res (list node) :=
  match ks with
  | [] => Ok []
  | k :: r =>
      if negb comments && is_comment k then eprep_kids scope declared incl comments r
      else do k' <- exc_prep scope declared incl comments k; do r' <- eprep_kids scope declared incl comments r; Ok (k' :: r')
  end.

Lemma exc_prep_elem ctx declared incl c sp tg attrs kids :
  exc_prep ctx declared incl c (Elem sp tg attrs kids) =
  (do scope <- sub_ctx ctx attrs;
   do da <- exc_declare (sp :: fst (exc_scan attrs incl)) scope declared;
   do kids' <- eprep_kids scope (fst da) incl c kids;
   Ok (Elem sp tg (sort_attrs (snd (exc_scan attrs incl) ++ snd da)) kids')).
Proof.
  cbn [exc_prep]. destruct (sub_ctx ctx attrs) as [scope|e]; [|reflexivity]. cbn [bind].
  destruct (exc_scan attrs incl) as [vis keep]. cbn [fst snd].
  destruct (exc_declare (sp :: vis) scope declared) as [da|e]; [|reflexivity]. cbn [bind].
  match goal with |- bind ?X _ = bind ?Y _ => assert (E : X = Y) end.
  { induction kids as [|k r IH]; [reflexivity|]. cbn [eprep_kids]. rewrite <- IH. reflexivity. }
  rewrite E. reflexivity.
Qed.

Lemma c14n_write_elem sp t attrs kids :
  c14n_write (Elem sp t attrs kids) =
  ("<" ++ Build.full_name sp t ++ c14n_write_attrs attrs ++ ">" ++ c14n_write_kids kids ++ "</" ++ Build.full_name sp t ++ ">")%string.
Proof.
  cbn [c14n_write]. f_equal.
Qed.

(* ================================================================ (a) comments *)
Fixpoint strip_comments (n : node) : node :=
  match n with
  | Elem s t a k =>
      Elem s t a ((fix go (l : list node) : list node :=
                     match l with
                     | [] => []
                     | x :: r => if is_comment x then go r else strip_comments x :: go r
                     end) k)
  | other => other
  end.
Fixpoint strip_comments_kids (l : list node) : list node :=
  match l with
  | [] => []
  | x :: r => if is_comment x then strip_comments_kids r else strip_comments x :: strip_comments_kids r
  end.
Lemma strip_comments_elem s t a k : strip_comments (Elem s t a k) = Elem s t a (strip_comments_kids k).
Proof. cbn [strip_comments]. f_equal. Qed.

Lemma is_comment_strip x : is_comment x = false -> is_comment (strip_comments x) = false.
Proof. destruct x; cbn; congruence. Qed.

Lemma canonical_prep_strip : forall n seen, canonical_prep seen false (strip_comments n) = canonical_prep seen false n.
Proof.
  fix IH 1. intros [s t a k| | | | ] seen; try reflexivity.
  rewrite strip_comments_elem, !canonical_prep_elem. f_equal.
  generalize (snd (prep_attrs (sort_attrs a) seen)) as seen'. intros seen'.
  induction k as [|x r IHr]; [reflexivity|].
  cbn [strip_comments_kids cprep_kids]. destruct (is_comment x) eqn:C; cbn [negb andb].
  - exact IHr.
  - cbn [cprep_kids]. rewrite (is_comment_strip x C). cbn [negb andb]. rewrite IH, IHr. reflexivity.
Qed.

Lemma exc_prep_strip : forall n ctx declared incl,
  exc_prep ctx declared incl false (strip_comments n) = exc_prep ctx declared incl false n.
Proof.
  fix IH 1. intros [s t a k| | | | ] ctx declared incl; try reflexivity.
  rewrite strip_comments_elem, !exc_prep_elem.
  destruct (sub_ctx ctx a) as [scope|e]; [|reflexivity]. cbn [bind].
  destruct (exc_declare (s :: fst (exc_scan a incl)) scope declared) as [da|e]; [|reflexivity]. cbn [bind].
  match goal with |- bind ?X _ = bind ?Y _ => assert (E : X = Y) end.
  { generalize (fst da) as d'. intros d'. induction k as [|x r IHr]; [reflexivity|].
    cbn [strip_comments_kids eprep_kids]. destruct (is_comment x) eqn:C; cbn [negb andb].
    - exact IHr.
    - cbn [eprep_kids]. rewrite (is_comment_strip x C). cbn [negb andb]. rewrite IH, IHr. reflexivity. }
  rewrite E. reflexivity.
Qed.

Theorem canon_ignores_comments : forall a n,
  keeps_comments a = false -> canon_model a (strip_comments n) = canon_model a n.
Proof.
  intros a n H. unfold canon_model, canon_prep.
  destruct a as [pl c | c | c | ]; cbn [keeps_comments] in H; try discriminate; subst c.
  - rewrite exc_prep_strip. reflexivity.
  - rewrite canonical_prep_strip. reflexivity.
  - rewrite canonical_prep_strip. reflexivity.
Qed.

(* two documents that differ only by comments, anywhere *)
Corollary canon_same_modulo_comments : forall a n1 n2,
  keeps_comments a = false -> strip_comments n1 = strip_comments n2 -> canon_model a n1 = canon_model a n2.
Proof. intros a n1 n2 H E. rewrite <- (canon_ignores_comments a n1 H), <- (canon_ignores_comments a n2 H), E. reflexivity. Qed.

Definition ex_commented : node :=
  Elem "a" "R" [ {| at_space := "xmlns"; at_key := "a"; at_val := "urn:x:a" |} ]
    [ Comment " top "; Text "t";
      Elem "a" "K" [ {| at_space := ""; at_key := "id"; at_val := "1" |} ] [ Text "u"; Comment "in"; Text "v"; Elem "" "E" [] [ Comment "deep" ] ];
      Comment "tail" ].
Example canon_ignores_comments_example :
  strip_comments ex_commented <> ex_commented /\
  canon_model (CExc "" false) ex_commented = Some "<a:R xmlns:a=""urn:x:a"">t<a:K id=""1"">uv<E></E></a:K></a:R>" /\
  canon_model (CExc "" false) (strip_comments ex_commented) = canon_model (CExc "" false) ex_commented /\
  canon_model (C11 false) (strip_comments ex_commented) = canon_model (C11 false) ex_commented /\
  canon_model (C11 true) (strip_comments ex_commented) <> canon_model (C11 true) ex_commented.
Proof. repeat split; try (vm_compute; reflexivity); vm_compute; intros H; discriminate H. Qed.

(* ================================================================ (d) the canonical escapers lose nothing *)
Lemma etree_escape_no_cr : forall m s, m <> Normal -> no_byte 13 (etree_escape m s) = true.
Proof.
  intros m s Hm. unfold no_byte, etree_escape. apply rune_map_str_all.
  - bytes.
  - destruct m; [congruence | bytes | bytes].
  - intros rn w e F. esc_inv F; reflexivity.
Qed.
Lemma etree_escape_attr_no_tab : forall s, no_byte 9 (etree_escape CanonAttr s) = true.
Proof.
  intros s. unfold no_byte, etree_escape. apply rune_map_str_all.
  - bytes.
  - bytes.
  - intros rn w e F. esc_inv F; reflexivity.
Qed.
Lemma etree_escape_attr_no_lf : forall s, no_byte 10 (etree_escape CanonAttr s) = true.
Proof.
  intros s. unfold no_byte, etree_escape. apply rune_map_str_all.
  - bytes.
  - bytes.
  - intros rn w e F. esc_inv F; reflexivity.
Qed.

Lemma eol_normalize_id : forall s, no_byte 13 s = true -> xml_eol_normalize s = s.
Proof.
  induction s as [|c s IH]; [reflexivity|]. unfold no_byte in *. cbn [str_all xml_eol_normalize].
  intros H. apply andb_true_iff in H as [H1 H2]. apply negb_true_iff in H1. rewrite H1, (IH H2). reflexivity.
Qed.
Lemma attr_ws_normalize_id : forall s,
  no_byte 9 s = true -> no_byte 10 s = true -> no_byte 13 s = true -> xml_attr_ws_normalize s = s.
Proof.
  induction s as [|c s IH]; [reflexivity|]. unfold no_byte, xml_attr_ws_normalize in *. cbn [str_all concat_map].
  intros H9 H10 H13.
  apply andb_true_iff in H9 as [A1 A2]. apply andb_true_iff in H10 as [B1 B2]. apply andb_true_iff in H13 as [C1 C2].
  apply negb_true_iff in A1, B1, C1. rewrite A1, B1, C1. cbn [orb append]. rewrite (IH A2 B2 C2). reflexivity.
Qed.

(* a reader recovers exactly the value from canonical character data: every XML-legal text, U+000D included (it is written
   as a character reference, so end-of-line handling cannot touch it) *)
Theorem canon_text_recovers_value : forall s,
  valid_xml_text s = true -> canon_text_read (etree_escape CanonText s) = s.
Proof.
  intros s V. unfold canon_text_read. rewrite eol_normalize_id by (apply etree_escape_no_cr; congruence).
  apply xml_unescape_escape_mode. exact V.
Qed.
(* ... and from a canonical attribute value, even a reader that normalises white space (TAB, LF, CR are references) *)
Theorem canon_attr_recovers_value : forall s,
  valid_xml_text s = true -> canon_attr_read (etree_escape CanonAttr s) = s.
Proof.
  intros s V. unfold canon_attr_read. rewrite eol_normalize_id by (apply etree_escape_no_cr; congruence).
  rewrite attr_ws_normalize_id by (first [apply etree_escape_attr_no_tab | apply etree_escape_attr_no_lf | apply etree_escape_no_cr; congruence]).
  apply xml_unescape_escape_mode. exact V.
Qed.
Corollary canon_escape_injective : forall m s1 s2,
  valid_xml_text s1 = true -> valid_xml_text s2 = true -> etree_escape m s1 = etree_escape m s2 -> s1 = s2.
Proof.
  intros m s1 s2 V1 V2 E. rewrite <- (xml_unescape_escape_mode m s1 V1), <- (xml_unescape_escape_mode m s2 V2), E. reflexivity.
Qed.

(* ---- character data cut into several tokens (a CDATA section, a comment that was removed, a character reference that
        the tokenizer returned separately): the canonical bytes are those of the concatenation ---- *)
Lemma decode_rune_app c a b rn w :
  decode_rune (String c a) = (rn, w) -> not_decode_error rn w = true ->
  decode_rune (String c (a ++ b)) = (rn, w) /\ (w - 1 <= String.length a)%nat.
Proof.
  unfold decode_rune, not_decode_error.
  assert (HRE : forall (X : Prop), (RE, 1%nat) = (rn, w) -> negb ((rn =? RE)%N && Nat.eqb w 1) = true -> X).
  { intros X [= <- <-]. vm_compute. discriminate. }
  destruct (code c <? 128)%N; [intros [= <- <-] _; split; [reflexivity | cbn; lia]|].
  destruct (code c <? 194)%N; [intros E1 E2; exact (HRE _ E1 E2)|].
  destruct (code c <? 224)%N.
  { destruct a as [|c1 a1]; [intros E1 E2; exact (HRE _ E1 E2)|]. cbn [append String.length].
    destruct (in_rng 128 191 c1); [|intros E1 E2; exact (HRE _ E1 E2)].
    intros [= <- <-] _. split; [reflexivity | cbn; lia]. }
  destruct (code c <? 240)%N.
  { destruct a as [|c1 [|c2 a2]]; try (intros E1 E2; exact (HRE _ E1 E2)). cbn [append String.length].
    destruct (in_rng _ _ c1); [|intros E1 E2; exact (HRE _ E1 E2)].
    destruct (in_rng 128 191 c2); [|intros E1 E2; exact (HRE _ E1 E2)].
    intros [= <- <-] _. split; [reflexivity | cbn; lia]. }
  destruct (code c <? 245)%N; [|intros E1 E2; exact (HRE _ E1 E2)].
  destruct a as [|c1 [|c2 [|c3 a3]]]; try (intros E1 E2; exact (HRE _ E1 E2)). cbn [append String.length].
  destruct (in_rng _ _ c1); [|intros E1 E2; exact (HRE _ E1 E2)].
  destruct (in_rng 128 191 c2); [|intros E1 E2; exact (HRE _ E1 E2)].
  destruct (in_rng 128 191 c3); [|intros E1 E2; exact (HRE _ E1 E2)].
  intros [= <- <-] _. split; [reflexivity | cbn; lia].
Qed.

Lemma rune_map_app f (ok : N -> nat -> bool) :
  (forall rn w, ok rn w = true -> not_decode_error rn w = true) ->
  forall a b skip copy, valid_go ok skip a = true -> (skip <= String.length a)%nat ->
    rune_map f skip copy (a ++ b) = (rune_map f skip copy a ++ rune_map f 0 true b)%string.
Proof.
  intros Hok. induction a as [|c a IH]; intros b skip copy V L.
  - cbn [String.length] in L. assert (skip = 0%nat) by lia. subst skip. cbn [append rune_map].
    destruct copy; [reflexivity | apply rune_map_copy_irrelevant].
  - cbn [append]. cbn [rune_map valid_go] in *. destruct skip as [|k].
    + destruct (decode_rune (String c a)) as [rn w] eqn:D.
      apply andb_true_iff in V as [V1 V2].
      destruct (decode_rune_app c a b rn w D (Hok _ _ V1)) as [D' Lw]. rewrite D'.
      destruct (f rn w) as [e|].
      * rewrite IH by assumption. rewrite append_assoc. reflexivity.
      * rewrite IH by assumption. reflexivity.
    + cbn [String.length] in L. destruct copy; rewrite IH by (assumption || lia); reflexivity.
Qed.

Lemma etree_escape_app : forall m a b,
  valid_utf8 a = true -> etree_escape m (a ++ b) = (etree_escape m a ++ etree_escape m b)%string.
Proof.
  intros m a b V. unfold etree_escape. apply (rune_map_app _ not_decode_error); [auto | exact V | lia].
Qed.

(* two adjacent character-data tokens serialise like their concatenation (first piece well-formed UTF-8, which every piece
   returned by a tokenizer is) *)
Theorem canon_text_tokens_concatenate : forall a b rest,
  valid_utf8 a = true ->
  c14n_write_kids (Text a :: Text b :: rest) = c14n_write_kids (Text (a ++ b) :: rest).
Proof.
  intros a b rest V. cbn [c14n_write_kids c14n_write]. rewrite etree_escape_app by exact V. rewrite append_assoc. reflexivity.
Qed.

(* ================================================================ (c) attribute order *)
(* ---- Go's < on strings ---- *)
Lemma sltb_lt a b : String.ltb a b = true <-> OrderedTypeEx.String_as_OT.lt a b.
Proof.
  unfold String.ltb. rewrite <- OrderedTypeEx.String_as_OT.cmp_lt. unfold OrderedTypeEx.String_as_OT.cmp.
  destruct (String.compare a b); split; congruence.
Qed.
Lemma sltb_trans a b c : String.ltb a b = true -> String.ltb b c = true -> String.ltb a c = true.
Proof. rewrite !sltb_lt. apply OrderedTypeEx.String_as_OT.lt_trans. Qed.
Lemma sltb_asym a b : String.ltb a b = true -> String.ltb b a = false.
Proof. unfold String.ltb. rewrite (String.compare_antisym b a). destruct (String.compare a b); cbn; congruence. Qed.
Lemma sltb_total a b : a <> b -> String.ltb a b = true \/ String.ltb b a = true.
Proof.
  intros N. unfold String.ltb. rewrite (String.compare_antisym b a).
  destruct (String.compare a b) eqn:E; cbn; auto. apply String.compare_eq_iff in E. congruence.
Qed.

(* ---- SortedAttrs.Less without the branch that reads the slice ---- *)
Definition attr_lt (x y : attr) : bool :=
  if is_default_decl y then false
  else if is_default_decl x then true
  else if at_space x =?s "xmlns" then (if at_space y =?s "xmlns" then String.ltb (at_key x) (at_key y) else true)
  else if at_space y =?s "xmlns" then false
  else if at_space x =?s "" then (if at_space y =?s "" then String.ltb (at_key x) (at_key y) else true)
  else if at_space y =?s "" then false
  else String.ltb (at_key x) (at_key y).

Lemma attr_less_lt w x y : attr_clash x y = false -> attr_less w x y = attr_lt x y.
Proof.
  intros H. unfold attr_less, attr_lt.
  destruct (is_default_decl y); [reflexivity|]. destruct (is_default_decl x); [reflexivity|].
  destruct (at_space x =?s "xmlns") eqn:X1; [reflexivity|]. destruct (at_space y =?s "xmlns") eqn:Y1; [reflexivity|].
  destruct (at_space x =?s "") eqn:X2; [reflexivity|]. destruct (at_space y =?s "") eqn:Y2; [reflexivity|].
  destruct (at_space x =?s at_space y) eqn:S; [reflexivity|].
  destruct (at_key x =?s at_key y) eqn:K; [|reflexivity].
  exfalso. unfold attr_clash, prefixed in H. rewrite K, S, X1, X2, Y1, Y2 in H. discriminate H.
Qed.

Definition attr_rank (a : attr) : nat :=
  if is_default_decl a then 0 else if at_space a =?s "xmlns" then 1 else if at_space a =?s "" then 2 else 3.

Lemma attr_lt_rank x y :
  attr_lt x y = Nat.ltb (attr_rank x) (attr_rank y)
                || (Nat.eqb (attr_rank x) (attr_rank y) && negb (Nat.eqb (attr_rank x) 0) && String.ltb (at_key x) (at_key y)).
Proof.
  unfold attr_lt, attr_rank.
  destruct (is_default_decl y), (is_default_decl x), (at_space x =?s "xmlns"), (at_space y =?s "xmlns"),
           (at_space x =?s ""), (at_space y =?s ""); cbn; try reflexivity; destruct (String.ltb (at_key x) (at_key y)); reflexivity.
Qed.

Lemma attr_lt_trans x y z : attr_lt x y = true -> attr_lt y z = true -> attr_lt x z = true.
Proof.
  rewrite !attr_lt_rank. intros H1 H2.
  apply orb_true_iff in H1. apply orb_true_iff in H2. apply orb_true_iff.
  destruct H1 as [H1|H1], H2 as [H2|H2].
  - left. apply Nat.ltb_lt in H1, H2. apply Nat.ltb_lt. lia.
  - left. apply Nat.ltb_lt in H1. apply andb_true_iff in H2 as [H2 _]. apply andb_true_iff in H2 as [H2 _].
    apply Nat.eqb_eq in H2. apply Nat.ltb_lt. lia.
  - left. apply Nat.ltb_lt in H2. apply andb_true_iff in H1 as [H1 _]. apply andb_true_iff in H1 as [H1 _].
    apply Nat.eqb_eq in H1. apply Nat.ltb_lt. lia.
  - right. apply andb_true_iff in H1 as [H1 K1]. apply andb_true_iff in H1 as [E1 Z1].
    apply andb_true_iff in H2 as [H2 K2]. apply andb_true_iff in H2 as [E2 Z2].
    apply Nat.eqb_eq in E1, E2. rewrite Z1, (sltb_trans _ _ _ K1 K2). rewrite E1, E2, Nat.eqb_refl. reflexivity.
Qed.

Lemma attr_lt_asym x y : attr_lt x y = true -> attr_lt y x = false.
Proof.
  rewrite !attr_lt_rank. intros H. apply orb_true_iff in H. apply orb_false_iff.
  destruct H as [H|H].
  - apply Nat.ltb_lt in H. split; [apply Nat.ltb_ge; lia|].
    destruct (Nat.eqb_spec (attr_rank y) (attr_rank x)); [lia | reflexivity].
  - apply andb_true_iff in H as [H K]. apply andb_true_iff in H as [E Z]. apply Nat.eqb_eq in E.
    split; [apply Nat.ltb_ge; lia|]. rewrite (sltb_asym _ _ K). apply andb_false_r.
Qed.

Lemma attr_clash_refl x : attr_clash x x = true.
Proof. unfold attr_clash. rewrite !String.eqb_refl. reflexivity. Qed.
Lemma attr_clash_sym x y : attr_clash x y = attr_clash y x.
Proof.
  unfold attr_clash. rewrite (String.eqb_sym (at_key x)), (String.eqb_sym (at_space x)), (andb_comm (prefixed x)). reflexivity.
Qed.

Lemma attr_lt_total x y : attr_clash x y = false -> attr_lt x y = true \/ attr_lt y x = true.
Proof.
  intros H. rewrite !attr_lt_rank.
  destruct (Nat.lt_trichotomy (attr_rank x) (attr_rank y)) as [L|[E|L]].
  - left. apply orb_true_iff. left. apply Nat.ltb_lt. exact L.
  - assert (K : at_key x <> at_key y /\ attr_rank x <> 0%nat).
    { unfold attr_clash, prefixed in H. unfold attr_rank, is_default_decl in *.
      destruct (at_space x =?s "") eqn:X2, (at_space y =?s "") eqn:Y2, (at_space x =?s "xmlns") eqn:X1, (at_space y =?s "xmlns") eqn:Y1,
               (at_key x =?s "xmlns") eqn:KX, (at_key y =?s "xmlns") eqn:KY; cbn in *; try discriminate E;
      repeat match goal with Hq : (_ =?s _) = true |- _ => apply String.eqb_eq in Hq end;
      try (rewrite X1 in X2; discriminate X2); try (rewrite Y1 in Y2; discriminate Y2);
      try (rewrite KX, KY, X2, Y2 in H; cbn in H; discriminate H);
      (split; [|lia]); intros Q; rewrite Q, String.eqb_refl in H; cbn in H;
      try (rewrite X2, Y2, String.eqb_refl in H; cbn in H; discriminate H);
      try (rewrite X1, Y1, String.eqb_refl in H; cbn in H; discriminate H);
      try (rewrite KX in KY; discriminate KY); try (rewrite <- Q, KX in KY; discriminate KY);
      try (destruct (at_space x =?s at_space y); cbn in H; discriminate H). }
    destruct K as [K Z]. rewrite <- E, !Nat.eqb_refl. apply Nat.eqb_neq in Z. rewrite Z. cbn.
    destruct (sltb_total _ _ K) as [T|T]; rewrite T; [left | right]; apply orb_true_r.
  - right. apply orb_true_iff. left. apply Nat.ltb_lt. exact L.
Qed.

(* ---- pairwise distinguishable attributes ---- *)
Definition PW (l : list attr) : Prop :=
  NoDup l /\ forall x y, In x l -> In y l -> x <> y -> attr_clash x y = false.

Lemma sort_total_PW l : sort_total l = true -> PW l.
Proof.
  induction l as [|a r IH]; cbn [sort_total]; intros H.
  - split; [constructor | intros x y []].
  - apply andb_true_iff in H as [H1 H2]. apply negb_true_iff in H1. destruct (IH H2) as [ND P].
    assert (NI : forall y, In y r -> attr_clash a y = false).
    { intros y Hy. destruct (attr_clash a y) eqn:C; [|reflexivity].
      assert (existsb (attr_clash a) r = true) by (apply existsb_exists; eauto). congruence. }
    split.
    + constructor; [|exact ND]. intros Hin. specialize (NI a Hin). rewrite attr_clash_refl in NI. discriminate.
    + intros x y [<-|Hx] [<-|Hy] N; [congruence | apply NI; exact Hy | rewrite attr_clash_sym; apply NI; exact Hx | apply P; assumption].
Qed.

Lemma PW_perm l l' : Permutation l l' -> PW l -> PW l'.
Proof.
  intros Hp [ND P]. split; [eapply Permutation_NoDup; eauto|].
  intros x y Hx Hy N. apply P; [eapply Permutation_in; [apply Permutation_sym; exact Hp | exact Hx]
                               | eapply Permutation_in; [apply Permutation_sym; exact Hp | exact Hy] | exact N].
Qed.

Lemma PW_sort_total l : PW l -> sort_total l = true.
Proof.
  induction l as [|a r IH]; intros [ND P]; [reflexivity|]. cbn [sort_total]. inversion ND as [|? ? Ha NDr]; subst.
  apply andb_true_iff. split.
  - apply negb_true_iff. destruct (existsb (attr_clash a) r) eqn:E; [|reflexivity].
    apply existsb_exists in E as (y & Hy & C). rewrite P in C; [discriminate | left; reflexivity | right; exact Hy | intros ->; contradiction].
  - apply IH. split; [exact NDr|]. intros x y Hx Hy. apply P; right; assumption.
Qed.

(* ---- Go's insertion sort, functionally: the sorted prefix is kept reversed ---- *)
Fixpoint ins (x : attr) (rp : list attr) : list attr :=
  match rp with
  | [] => [x]
  | y :: r => if attr_lt x y then y :: ins x r else x :: rp
  end.
Definition gfold (l rp : list attr) : list attr := fold_left (fun rp x => ins x rp) l rp.

Lemma ins_perm x rp : Permutation (ins x rp) (x :: rp).
Proof.
  induction rp as [|y r IH]; cbn [ins]; [reflexivity|]. destruct (attr_lt x y); [|reflexivity].
  rewrite IH. apply perm_swap.
Qed.
Lemma ins_length x rp : List.length (ins x rp) = S (List.length rp).
Proof. rewrite (Permutation_length (ins_perm x rp)). reflexivity. Qed.

Lemma nth_mid (a : list attr) x rest d : nth (List.length a) (a ++ x :: rest) d = x.
Proof. rewrite app_nth2 by lia. rewrite Nat.sub_diag. reflexivity. Qed.
Lemma swap_mid (a : list attr) y x rest :
  swap_with_prev (a ++ y :: x :: rest) (S (List.length a)) = a ++ x :: y :: rest.
Proof. induction a as [|h t IH]; [reflexivity|]. cbn [app List.length]. cbn [swap_with_prev]. rewrite IH. reflexivity. Qed.

Lemma sink_spec : forall rp x rest,
  (forall y, In y rp -> attr_clash x y = false) ->
  sink (rev rp ++ x :: rest) (List.length rp) = rev (ins x rp) ++ rest.
Proof.
  induction rp as [|y r IH]; intros x rest H; [reflexivity|].
  cbn [List.length sink].
  assert (E1 : nth (S (List.length r)) (rev (y :: r) ++ x :: rest) zero_attr = x).
  { replace (S (List.length r)) with (List.length (rev (y :: r))) by (rewrite rev_length; reflexivity). apply nth_mid. }
  assert (E2 : nth (List.length r) (rev (y :: r) ++ x :: rest) zero_attr = y).
  { cbn [rev]. rewrite <- app_assoc. cbn [app]. replace (List.length r) with (List.length (rev r)) by apply rev_length. apply nth_mid. }
  rewrite E1, E2, attr_less_lt by (apply H; left; reflexivity). cbn [ins].
  destruct (attr_lt x y).
  - cbn [rev]. rewrite <- app_assoc. cbn [app].
    replace (S (List.length r)) with (S (List.length (rev r))) by (rewrite rev_length; reflexivity).
    rewrite swap_mid. rewrite IH by (intros z Hz; apply H; right; exact Hz).
    rewrite <- app_assoc. reflexivity.
  - cbn [rev]. rewrite <- !app_assoc. reflexivity.
Qed.

Lemma sort_fold : forall rest rp,
  PW (rp ++ rest) ->
  fold_left sink (seq (List.length rp) (List.length rest)) (rev rp ++ rest) = rev (gfold rest rp).
Proof.
  induction rest as [|x rest IH]; intros rp H.
  - cbn. rewrite app_nil_r. reflexivity.
  - cbn [List.length seq fold_left gfold].
    rewrite sink_spec.
    2:{ intros y Hy. destruct H as [ND P]. apply P; [apply in_or_app; right; left; reflexivity | apply in_or_app; left; exact Hy |].
        intros ->. apply NoDup_remove_2 in ND. apply ND. apply in_or_app. left. exact Hy. }
    rewrite <- (ins_length x rp). apply IH.
    eapply PW_perm; [|exact H]. rewrite (ins_perm x rp). cbn [app]. symmetry. apply Permutation_middle.
Qed.

Lemma sort_attrs_gsort l : PW l -> sort_attrs l = rev (gfold l []).
Proof.
  intros H. unfold sort_attrs. destruct l as [|x rest]; [reflexivity|].
  replace (List.length (x :: rest) - 1)%nat with (List.length rest) by (cbn [List.length]; lia).
  exact (sort_fold rest [x] H).
Qed.

(* ---- sorted + same elements = same list ---- *)
Definition desc : list attr -> Prop := StronglySorted (fun a b => attr_lt b a = true).

Lemma Forall_ins (P : attr -> Prop) x rp : P x -> Forall P rp -> Forall P (ins x rp).
Proof.
  intros Hx Hr. eapply Permutation_Forall; [apply Permutation_sym, ins_perm|]. constructor; assumption.
Qed.

Lemma ins_desc : forall rp x, PW (x :: rp) -> desc rp -> desc (ins x rp).
Proof.
  induction rp as [|y r IH]; intros x H S; cbn [ins].
  - repeat constructor.
  - inversion S as [|? ? Sr Fy]; subst. destruct (attr_lt x y) eqn:L.
    + constructor.
      * apply IH; [|exact Sr]. eapply PW_perm in H; [|apply perm_swap].
        destruct H as [ND P]. inversion ND; subst. split; [assumption|]. intros a b Ha Hb. apply P; right; assumption.
      * apply Forall_ins; assumption.
    + assert (Lyx : attr_lt y x = true).
      { destruct H as [ND P]. destruct (attr_lt_total x y) as [T|T]; [|congruence | exact T].
        apply P; [left; reflexivity | right; left; reflexivity |]. intros ->. inversion ND as [|? ? Hn _]; subst. apply Hn. left. reflexivity. }
      constructor; [exact S|]. constructor; [exact Lyx|].
      eapply Forall_impl; [|exact Fy]. intros b Hb. cbn in *. eapply attr_lt_trans; eassumption.
Qed.

Lemma NoDup_app_l (a b : list attr) : NoDup (a ++ b) -> NoDup a.
Proof.
  induction a as [|x a IH]; intros H; [constructor|]. cbn [app] in H. inversion H as [|? ? Hn H']; subst.
  constructor; [intros Hi; apply Hn; apply in_or_app; left; exact Hi | apply IH; exact H'].
Qed.

Lemma gfold_desc : forall l rp, PW (rp ++ l) -> desc rp -> desc (gfold l rp) /\ Permutation (gfold l rp) (rp ++ l).
Proof.
  induction l as [|x l IH]; intros rp H S.
  - cbn. rewrite app_nil_r. split; [exact S | reflexivity].
  - cbn [gfold fold_left].
    assert (Hp : Permutation (ins x rp ++ l) (rp ++ x :: l)).
    { rewrite (ins_perm x rp). cbn [app]. apply Permutation_middle. }
    destruct (IH (ins x rp)) as [D P].
    + eapply PW_perm; [apply Permutation_sym; exact Hp | exact H].
    + apply ins_desc; [|exact S]. destruct H as [ND P]. split.
      * apply (Permutation_NoDup (l' := x :: rp ++ l)) in ND; [|apply Permutation_sym, Permutation_middle].
        inversion ND as [|? ? Hn ND']; subst. constructor; [intros Hi; apply Hn; apply in_or_app; left; exact Hi|].
        eapply NoDup_app_l. exact ND'.
      * intros a b Ha Hb. apply P.
        -- destruct Ha as [<-|Ha]; apply in_or_app; [right; left; reflexivity | left; exact Ha].
        -- destruct Hb as [<-|Hb]; apply in_or_app; [right; left; reflexivity | left; exact Hb].
    + split; [exact D|]. unfold gfold in P. rewrite P. exact Hp.
Qed.

Lemma desc_unique : forall l1 l2, desc l1 -> desc l2 -> Permutation l1 l2 -> l1 = l2.
Proof.
  induction l1 as [|a t1 IH]; intros l2 S1 S2 P.
  - apply Permutation_nil in P. congruence.
  - destruct l2 as [|b t2]; [apply Permutation_sym, Permutation_nil in P; discriminate|].
    inversion S1 as [|? ? S1' F1]; inversion S2 as [|? ? S2' F2]; subst.
    assert (a = b).
    { assert (Ha : In a (b :: t2)) by (eapply Permutation_in; [exact P | left; reflexivity]).
      assert (Hb : In b (a :: t1)) by (eapply Permutation_in; [apply Permutation_sym; exact P | left; reflexivity]).
      destruct Ha as [Ha|Ha]; [congruence|]. destruct Hb as [Hb|Hb]; [congruence|].
      rewrite Forall_forall in F1, F2. pose proof (F2 _ Ha) as L1. pose proof (F1 _ Hb) as L2. cbn in *.
      apply attr_lt_asym in L1. congruence. }
    subst b. f_equal. apply IH; [assumption | assumption | eapply Permutation_cons_inv; exact P].
Qed.

(* permuting pairwise distinguishable attributes does not change the sorted slice *)
Theorem sort_attrs_perm l l' : sort_total l = true -> Permutation l l' -> sort_attrs l' = sort_attrs l.
Proof.
  intros T P. pose proof (sort_total_PW l T) as H. pose proof (PW_perm _ _ P H) as H'.
  rewrite !sort_attrs_gsort by assumption. f_equal.
  destruct (gfold_desc l [] H (SSorted_nil _)) as [D1 P1]. destruct (gfold_desc l' [] H' (SSorted_nil _)) as [D2 P2].
  apply desc_unique; [assumption | assumption|]. cbn [app] in *. rewrite P2, P1. symmetry. exact P.
Qed.

(* ---- lifted to trees: the attributes of any number of elements, at any depth, permuted ---- *)
Fixpoint attrs_permuted (n n' : node) {struct n} : Prop :=
  match n, n' with
  | Elem sp tg a k, Elem sp' tg' a' k' =>
      sp = sp' /\ tg = tg' /\ Permutation a a' /\
      (fix go (l l' : list node) {struct l} : Prop :=
         match l, l' with
         | [], [] => True
         | x :: r, x' :: r' => attrs_permuted x x' /\ go r r'
         | _, _ => False
         end) k k'
  | Elem _ _ _ _, _ => False
  | other, other' => other = other'
  end.
Fixpoint kids_permuted (l l' : list node) : Prop :=
  match l, l' with
  | [], [] => True
  | x :: r, x' :: r' => attrs_permuted x x' /\ kids_permuted r r'
  | _, _ => False
  end.

(* every element's attributes are pairwise distinguishable by SortedAttrs.Less *)
Fixpoint all_sort_total (n : node) : bool :=
  match n with
  | Elem _ _ attrs kids =>
      sort_total attrs && (fix go (l : list node) : bool := match l with [] => true | k :: r => all_sort_total k && go r end) kids
  | _ => true
  end.
Fixpoint kids_sort_total (l : list node) : bool :=
  match l with [] => true | k :: r => all_sort_total k && kids_sort_total r end.

Lemma attrs_permuted_is_comment x x' : attrs_permuted x x' -> is_comment x' = is_comment x.
Proof. destruct x, x'; cbn; intros H; try contradiction; try discriminate H; try reflexivity; congruence. Qed.

Lemma canonical_prep_permuted : forall n n' seen c,
  all_sort_total n = true -> attrs_permuted n n' -> canonical_prep seen c n' = canonical_prep seen c n.
Proof.
  fix IH 1. intros [sp tg a k| | | | ] n' seen c T P; try (cbn in P; subst n'; reflexivity).
  destruct n' as [sp' tg' a' k'| | | | ]; try contradiction.
  change (sp = sp' /\ tg = tg' /\ Permutation a a' /\ kids_permuted k k') in P. destruct P as (<- & <- & Pa & Pk).
  change (sort_total a && kids_sort_total k = true) in T. apply andb_true_iff in T as [Ta Tk].
  rewrite !canonical_prep_elem, (sort_attrs_perm a a' Ta Pa). f_equal.
  generalize (snd (prep_attrs (sort_attrs a) seen)) as s. intros s. revert k' Pk Tk.
  induction k as [|x r IHr]; intros [|x' r'] Pk Tk; try contradiction; [reflexivity|].
  cbn [kids_permuted] in Pk. destruct Pk as [Px Pr]. cbn [kids_sort_total] in Tk. apply andb_true_iff in Tk as [Tx Tr].
  cbn [cprep_kids]. rewrite (attrs_permuted_is_comment x x' Px), (IH x x' s c Tx Px), (IHr r' Pr Tr). reflexivity.
Qed.

Definition inclusive (a : canon_alg) : bool := match a with CExc _ _ => false | _ => true end.

(* PARTIAL as to the algorithms: proved for the inclusive canonicalisers (c14n 1.0 REC, c14n 1.1, null); for the exclusive
   ones the same sort is applied to a slice that also holds the declarations exc-c14n adds (not proved here; exercised by
   the correspondence run on permuted attributes) *)
Theorem canon_ignores_attribute_order_inclusive : forall a n n',
  inclusive a = true -> all_sort_total n = true -> attrs_permuted n n' -> canon_model a n' = canon_model a n.
Proof.
  intros a n n' I T P. unfold canon_model, canon_prep. destruct a; try discriminate I; rewrite (canonical_prep_permuted n n' _ _ T P); reflexivity.
Qed.

(* the premise holds of every element whose attributes have pairwise distinct qualified names and in which no two
   prefixed attributes share a local name *)
Lemma sort_total_iff l :
  sort_total l = true <->
  NoDup l /\ forall x y, In x l -> In y l -> x <> y ->
             at_key x <> at_key y \/ (at_space x <> at_space y /\ (prefixed x && prefixed y = false)).
Proof.
  split.
  - intros H. destruct (sort_total_PW l H) as [ND P]. split; [exact ND|]. intros x y Hx Hy N.
    specialize (P x y Hx Hy N). unfold attr_clash in P.
    destruct (at_key x =?s at_key y) eqn:K; [|left; intros Q; rewrite Q, String.eqb_refl in K; discriminate K].
    right. cbn in P. apply orb_false_iff in P as [P1 P2]. split; [|exact P2].
    intros Q. rewrite Q, String.eqb_refl in P1. discriminate P1.
  - intros [ND P]. apply PW_sort_total. split; [exact ND|]. intros x y Hx Hy N. unfold attr_clash.
    destruct (P x y Hx Hy N) as [K|[S Q]].
    + apply String.eqb_neq in K. rewrite K. reflexivity.
    + apply String.eqb_neq in S. rewrite S, Q. apply andb_false_r.
Qed.

Definition at_ (sp k v : string) : attr := {| at_space := sp; at_key := k; at_val := v |}.
Definition ex_perm1 : node :=
  Elem "a" "R" [ at_ "" "ID" "_1"; at_ "xmlns" "b" "urn:x:b"; at_ "a" "k" "v"; at_ "xmlns" "a" "urn:x:a"; at_ "" "xmlns" "urn:d"; at_ "b" "j" "w" ]
    [ Elem "" "K" [ at_ "" "z" "1"; at_ "" "a" "2"; at_ "xml" "lang" "en" ] [ Text "t" ] ].
Definition ex_perm2 : node :=
  Elem "a" "R" (rev [ at_ "" "ID" "_1"; at_ "xmlns" "b" "urn:x:b"; at_ "a" "k" "v"; at_ "xmlns" "a" "urn:x:a"; at_ "" "xmlns" "urn:d"; at_ "b" "j" "w" ])
    [ Elem "" "K" (rev [ at_ "" "z" "1"; at_ "" "a" "2"; at_ "xml" "lang" "en" ]) [ Text "t" ] ].
Lemma ex_perm_permuted : attrs_permuted ex_perm1 ex_perm2.
Proof. unfold ex_perm1, ex_perm2. cbn [attrs_permuted]. repeat split; apply Permutation_rev. Qed.
Example canon_ignores_attribute_order_example :
  all_sort_total ex_perm1 = true /\ attrs_permuted ex_perm1 ex_perm2 /\ ex_perm1 <> ex_perm2 /\
  canon_model (C11 false) ex_perm1 =
    Some "<a:R xmlns=""urn:d"" xmlns:a=""urn:x:a"" xmlns:b=""urn:x:b"" ID=""_1"" b:j=""w"" a:k=""v""><K a=""2"" z=""1"" xml:lang=""en"">t</K></a:R>" /\
  canon_model (C11 false) ex_perm2 = canon_model (C11 false) ex_perm1 /\
  canon_model (CExc "" false) ex_perm2 = canon_model (CExc "" false) ex_perm1.
Proof.
  split; [vm_compute; reflexivity|]. split; [exact ex_perm_permuted|]. split; [intros H; discriminate H|].
  repeat split; vm_compute; reflexivity.
Qed.

(* WITHOUT the premise the statement is false of goxmldsig: two prefixed attributes with the same local name whose prefixes
   are declared on an ANCESTOR are "equal" for SortedAttrs.Less (it looks for the declarations in the slice being sorted
   only), so the stable sort leaves them in document order.  W3C C14N orders them by name-space URI.  (The harness checks
   both documents against the real library: fixed cases of the canon set.) *)
Definition ex_namesake (first_b : bool) : node :=
  Elem "" "r" [ at_ "xmlns" "a" "urn:x:a"; at_ "xmlns" "b" "urn:x:b" ]
    [ Elem "" "e" (if first_b then [ at_ "b" "k" "1"; at_ "a" "k" "2" ] else [ at_ "a" "k" "2"; at_ "b" "k" "1" ]) [] ].
Theorem canon_attribute_order_matters_for_namesakes :
  exists n n', attrs_permuted n n' /\
    canon_model (C11 false) n = Some "<r xmlns:a=""urn:x:a"" xmlns:b=""urn:x:b""><e b:k=""1"" a:k=""2""></e></r>" /\
    canon_model (C11 false) n' = Some "<r xmlns:a=""urn:x:a"" xmlns:b=""urn:x:b""><e a:k=""2"" b:k=""1""></e></r>" /\
    canon_model (CRec false) n <> canon_model (CRec false) n' /\
    canon_model CNull n <> canon_model CNull n' /\
    (* exclusive c14n declares a and b on e itself, finds them in the slice and orders by URI *)
    canon_model (CExc "" false) n = canon_model (CExc "" false) n'.
Proof.
  exists (ex_namesake true), (ex_namesake false). split; [|repeat split; try (vm_compute; reflexivity); vm_compute; intros H; discriminate H].
  cbn. repeat split; try reflexivity. apply perm_swap.
Qed.

(* ================================================================ (b) redundant name-space declarations, inclusive algorithms *)
(* the key under which canonicalPrepInner remembers a declaration *)
Definition decl_key (a : attr) : string := if at_space a =?s "xmlns" then ("xmlns:" ++ at_key a)%string else "xmlns".
(* the declaration repeats what is in force: canonicalPrepInner neither writes nor records it *)
Definition decl_redundant (seen : list (string * string)) (d : attr) : bool :=
  if at_space d =?s "xmlns" then
    match assoc_get (decl_key d) seen with Some u => at_val d =?s u | None => false end
  else at_val d =?s match assoc_get "xmlns" seen with Some u => u | None => "" end.

Lemma assoc_get_set_other {A} k k' (v : A) l : k <> k' -> assoc_get k (assoc_set k' v l) = assoc_get k l.
Proof.
  intros N. induction l as [|[k0 v0] r IH]; cbn [assoc_set assoc_get].
  - apply String.eqb_neq in N. rewrite N. reflexivity.
  - destruct (k' =?s k0) eqn:E; cbn [assoc_get].
    + apply String.eqb_eq in E. subst k0. apply String.eqb_neq in N. rewrite N. reflexivity.
    + rewrite IH. reflexivity.
Qed.

Lemma decl_redundant_set seen d k v :
  is_ns_decl d = true -> decl_key d <> k -> decl_redundant (assoc_set k v seen) d = decl_redundant seen d.
Proof.
  intros D N. unfold decl_redundant. destruct (at_space d =?s "xmlns") eqn:S.
  - rewrite assoc_get_set_other by exact N. reflexivity.
  - unfold decl_key in N. rewrite S in N. rewrite assoc_get_set_other by exact N. reflexivity.
Qed.

Lemma prep_attrs_redundant_here d s2 seen :
  is_ns_decl d = true -> decl_redundant seen d = true -> prep_attrs (d :: s2) seen = prep_attrs s2 seen.
Proof.
  intros D R. unfold is_ns_decl in D. unfold decl_redundant, decl_key in R. cbn [prep_attrs]. unfold Dsig.is_default_decl.
  destruct (at_space d =?s "xmlns") eqn:S; cbn [negb andb].
  - destruct (assoc_get ("xmlns:" ++ at_key d) seen) as [u|]; [|discriminate R]. rewrite R. reflexivity.
  - cbn [orb] in D. rewrite D. cbn [negb]. rewrite R. reflexivity.
Qed.

Lemma prep_attrs_redundant : forall s1 d s2 seen,
  is_ns_decl d = true ->
  (forall a, In a s1 -> is_ns_decl a = true -> decl_key a <> decl_key d) ->
  decl_redundant seen d = true ->
  prep_attrs (s1 ++ d :: s2) seen = prep_attrs (s1 ++ s2) seen.
Proof.
  induction s1 as [|a s1 IH]; intros d s2 seen D K R.
  - apply prep_attrs_redundant_here; assumption.
  - assert (K' : forall b, In b s1 -> is_ns_decl b = true -> decl_key b <> decl_key d) by (intros b Hb; apply K; right; exact Hb).
    assert (Ka : is_ns_decl a = true -> decl_key d <> decl_key a) by (intros Ha Q; apply (K a (or_introl eq_refl) Ha); symmetry; exact Q).
    cbn [app prep_attrs]. unfold Dsig.is_default_decl.
    destruct (negb (at_space a =?s "xmlns") && negb ((at_space a =?s "") && (at_key a =?s "xmlns"))) eqn:C.
    + rewrite (IH d s2 seen D K' R). reflexivity.
    + assert (Da : is_ns_decl a = true).
      { unfold is_ns_decl. destruct (at_space a =?s "xmlns"); [reflexivity|]. cbn in C. apply negb_false_iff in C. exact C. }
      specialize (Ka Da). unfold decl_key in Ka at 2.
      destruct (at_space a =?s "xmlns") eqn:Sa.
      * destruct (assoc_get ("xmlns:" ++ at_key a) seen) as [u|].
        -- destruct (at_val a =?s u).
           ++ apply IH; assumption.
           ++ rewrite (IH d s2 (assoc_set _ _ seen) D K') by (rewrite decl_redundant_set; assumption). reflexivity.
        -- rewrite (IH d s2 (assoc_set _ _ seen) D K') by (rewrite decl_redundant_set; assumption). reflexivity.
      * destruct (negb (at_val a =?s match assoc_get "xmlns" seen with Some u => u | None => "" end)).
        -- rewrite (IH d s2 (assoc_set _ _ seen) D K') by (rewrite decl_redundant_set; assumption). reflexivity.
        -- apply IH; assumption.
Qed.

(* removing one element from a sorted slice *)
Lemma desc_remove : forall a x b, desc (a ++ x :: b) -> desc (a ++ b).
Proof.
  induction a as [|h a IH]; intros x b S; cbn [app] in *.
  - inversion S; assumption.
  - inversion S as [|? ? S' F]; subst. constructor; [eapply IH; exact S'|].
    apply Forall_app in F as [F1 F2]. inversion F2; subst. apply Forall_app. split; assumption.
Qed.

Lemma sort_attrs_insert pre d post :
  sort_total (pre ++ d :: post) = true ->
  exists s1 s2, sort_attrs (pre ++ post) = s1 ++ s2 /\ sort_attrs (pre ++ d :: post) = s1 ++ d :: s2.
Proof.
  intros T. pose proof (sort_total_PW _ T) as H.
  assert (H0 : PW (pre ++ post)).
  { destruct H as [ND P]. split; [eapply NoDup_remove_1; exact ND|].
    intros x y Hx Hy. apply P; apply in_or_app; [apply in_app_or in Hx as [Hx|Hx] | apply in_app_or in Hy as [Hy|Hy]]; auto; right; right; assumption. }
  destruct (gfold_desc (pre ++ d :: post) [] H (SSorted_nil _)) as [D1 P1].
  destruct (gfold_desc (pre ++ post) [] H0 (SSorted_nil _)) as [D0 P0]. cbn [app] in P1, P0.
  assert (Hin : In d (gfold (pre ++ d :: post) [])).
  { eapply Permutation_in; [apply Permutation_sym; exact P1|]. apply in_or_app. right. left. reflexivity. }
  apply in_split in Hin as (g1 & g2 & E). rewrite E in D1, P1.
  assert (E0 : gfold (pre ++ post) [] = g1 ++ g2).
  { apply desc_unique; [exact D0 | eapply desc_remove; exact D1|]. rewrite P0. symmetry. eapply Permutation_app_inv. exact P1. }
  exists (rev g2), (rev g1). rewrite !sort_attrs_gsort by assumption. rewrite E, E0, !rev_app_distr. cbn [rev]. rewrite <- app_assoc. split; reflexivity.
Qed.

Lemma sort_attrs_in l x : PW l -> In x (sort_attrs l) -> In x l.
Proof.
  intros H Hx. rewrite sort_attrs_gsort in Hx by exact H. apply in_rev in Hx.
  destruct (gfold_desc l [] H (SSorted_nil _)) as [_ P]. eapply Permutation_in; [exact P | exact Hx].
Qed.

(* one element: a declaration that repeats what is in force, at any position among the attributes *)
Theorem canonical_prep_redundant_decl : forall seen c sp tg pre d post kids,
  sort_total (pre ++ d :: post) = true -> is_ns_decl d = true -> decl_redundant seen d = true ->
  canonical_prep seen c (Elem sp tg (pre ++ d :: post) kids) = canonical_prep seen c (Elem sp tg (pre ++ post) kids).
Proof.
  intros seen c sp tg pre d post kids T D R.
  destruct (sort_attrs_insert pre d post T) as (s1 & s2 & E0 & E1).
  rewrite !canonical_prep_elem, E0, E1.
  rewrite prep_attrs_redundant; [reflexivity | exact D | | exact R].
  intros a Ha Da Q. pose proof (sort_total_PW _ T) as [ND P].
  assert (Ha' : In a (pre ++ d :: post)).
  { assert (In a (sort_attrs (pre ++ d :: post))) by (rewrite E1; apply in_or_app; left; exact Ha).
    eapply sort_attrs_in; [apply sort_total_PW; exact T | assumption]. }
  assert (Hd : In d (pre ++ d :: post)) by (apply in_or_app; right; left; reflexivity).
  assert (N : a <> d).
  { intros ->. assert (NDs : NoDup (s1 ++ d :: s2)).
    { rewrite <- E1. rewrite sort_attrs_gsort by (split; assumption).
      destruct (gfold_desc (pre ++ d :: post) [] (conj ND P) (SSorted_nil _)) as [_ Pg].
      eapply Permutation_NoDup; [|exact ND]. rewrite <- Permutation_rev. symmetry. exact Pg. }
    apply NoDup_remove_2 in NDs. apply NDs. apply in_or_app. left. exact Ha. }
  specialize (P a d Ha' Hd N). unfold attr_clash in P. unfold decl_key in Q. unfold is_ns_decl in D, Da.
  destruct (at_space a =?s "xmlns") eqn:Sa, (at_space d =?s "xmlns") eqn:Sd.
  - apply String.eqb_eq in Sa, Sd. injection Q as Q. rewrite Q, Sa, Sd, !String.eqb_refl in P. discriminate P.
  - discriminate Q.
  - discriminate Q.
  - cbn [orb] in D, Da. apply andb_true_iff in D as [D1 D2]. apply andb_true_iff in Da as [A1 A2].
    apply String.eqb_eq in D1, D2, A1, A2. rewrite A1, A2, D1, D2 in P. discriminate P.
Qed.

(* ---- the same anywhere in a tree: what canonicalPrepInner has recorded when it reaches the element at path p ---- *)
Fixpoint seen_at (seen : list (string * string)) (n : node) (p : list nat) : option (list (string * string)) :=
  match p with
  | [] => Some seen
  | i :: r =>
      match n with
      | Elem _ _ attrs kids =>
          match nth_error kids i with
          | Some k => seen_at (snd (prep_attrs (sort_attrs attrs) seen)) k r
          | None => None
          end
      | _ => None
      end
  end.

Lemma cprep_kids_replace seen c : forall kids i k k',
  nth_error kids i = Some k -> canonical_prep seen c k' = canonical_prep seen c k -> is_comment k' = is_comment k ->
  cprep_kids seen c (replace_nth i k' kids) = cprep_kids seen c kids.
Proof.
  induction kids as [|x r IH]; intros i k k' N E C; [destruct i; discriminate N|].
  destruct i as [|j]; cbn [nth_error replace_nth cprep_kids] in *.
  - injection N as ->. rewrite C, E. reflexivity.
  - rewrite (IH j k k' N E C). reflexivity.
Qed.

Lemma is_comment_subst_at k r new : r <> [] -> is_comment (subst_at k r new) = is_comment k.
Proof.
  intros N. destruct r as [|i r]; [congruence|]. destruct k as [sp tg attrs kids| | | | ]; try reflexivity.
  cbn [subst_at]. destruct (nth_error kids i); reflexivity.
Qed.

Lemma canonical_prep_congr c : forall p n seen old new s,
  node_at n p = Some old -> seen_at seen n p = Some s ->
  canonical_prep s c new = canonical_prep s c old -> is_comment new = is_comment old ->
  canonical_prep seen c (subst_at n p new) = canonical_prep seen c n.
Proof.
  induction p as [|i r IH]; intros n seen old new s N S E C.
  - cbn in N, S. injection N as <-. injection S as <-. exact E.
  - destruct n as [sp tg attrs kids| | | | ]; try (cbn in S; discriminate S).
    cbn [node_at kids_of] in N. cbn [seen_at] in S. cbn [subst_at].
    destruct (nth_error kids i) as [k|] eqn:K; [|discriminate N].
    rewrite !canonical_prep_elem. f_equal.
    apply (cprep_kids_replace _ c kids i k); [exact K | eapply IH; eassumption|].
    destruct r as [|j r']; [|apply is_comment_subst_at; discriminate].
    cbn in N. injection N as <-. exact C.
Qed.

(* (b), inclusive algorithms: re-declaring, on the element at ANY path p, a prefix (or the default name space) with the
   URI that is in force there does not change the canonical bytes -- provided SortedAttrs.Less can tell the attributes
   of that element apart (see the refutation below) *)
Theorem canon_ignores_redundant_declaration : forall a root p sp tg pre d post kids s,
  inclusive a = true ->
  node_at root p = Some (Elem sp tg (pre ++ post) kids) -> seen_at [] root p = Some s ->
  sort_total (pre ++ d :: post) = true -> is_ns_decl d = true -> decl_redundant s d = true ->
  canon_model a (subst_at root p (Elem sp tg (pre ++ d :: post) kids)) = canon_model a root.
Proof.
  intros a root p sp tg pre d post kids s I N S T D R.
  assert (E : forall c, canonical_prep [] c (subst_at root p (Elem sp tg (pre ++ d :: post) kids)) = canonical_prep [] c root).
  { intros c. eapply canonical_prep_congr; [exact N | exact S | apply canonical_prep_redundant_decl; assumption | reflexivity]. }
  unfold canon_model, canon_prep. destruct a; try discriminate I; rewrite E; reflexivity.
Qed.

Definition ex_redecl_root : node :=
  Elem "a" "R" [ at_ "xmlns" "a" "urn:x:a"; at_ "" "xmlns" "urn:d" ]
    [ Comment "c"; Elem "a" "K" [ at_ "" "id" "1"; at_ "a" "k" "2" ] [ Elem "" "L" [] [] ] ].
Example canon_ignores_redundant_declaration_example :
  let root' := subst_at ex_redecl_root [1%nat] (Elem "a" "K" [ at_ "" "id" "1"; at_ "xmlns" "a" "urn:x:a"; at_ "a" "k" "2" ] [ Elem "" "L" [] [] ]) in
  let root'' := subst_at ex_redecl_root [1%nat; 0%nat] (Elem "" "L" [ at_ "" "xmlns" "urn:d" ] []) in
  node_at ex_redecl_root [1%nat] = Some (Elem "a" "K" ([ at_ "" "id" "1" ] ++ [ at_ "a" "k" "2" ]) [ Elem "" "L" [] [] ]) /\
  (exists s, seen_at [] ex_redecl_root [1%nat] = Some s /\ decl_redundant s (at_ "xmlns" "a" "urn:x:a") = true) /\
  root' <> ex_redecl_root /\
  canon_model (C11 false) root' = canon_model (C11 false) ex_redecl_root /\
  canon_model (C11 true) root'' = canon_model (C11 true) ex_redecl_root /\
  canon_model (C11 false) ex_redecl_root = Some "<a:R xmlns=""urn:d"" xmlns:a=""urn:x:a""><a:K id=""1"" a:k=""2""><L></L></a:K></a:R>".
Proof.
  cbv zeta. split; [reflexivity|]. split; [eexists; split; [reflexivity | vm_compute; reflexivity]|].
  split; [vm_compute; intros H; discriminate H|]. repeat split; vm_compute; reflexivity.
Qed.

(* WITHOUT the premise: a redundant declaration brings the prefix's URI into the slice SortedAttrs.Less reads, and two
   namesake attributes that were "equal" (document order kept) are now ordered -- the canonical bytes change by more
   than the dropped declaration *)
Theorem canon_redundant_declaration_reorders_namesakes :
  exists root p sp tg pre d post kids s,
    node_at root p = Some (Elem sp tg (pre ++ post) kids) /\ seen_at [] root p = Some s /\
    is_ns_decl d = true /\ decl_redundant s d = true /\
    canon_model (C11 false) root = Some "<r xmlns:a=""urn:x:a"" xmlns:b=""urn:x:b""><e a:k=""2"" b:k=""1""></e></r>" /\
    canon_model (C11 false) (subst_at root p (Elem sp tg (pre ++ d :: post) kids))
      = Some "<r xmlns:a=""urn:x:a"" xmlns:b=""urn:x:b""><e b:k=""1"" a:k=""2""></e></r>".
Proof.
  exists (ex_namesake false), [0%nat], "", "e", [], (at_ "xmlns" "a" "urn:x:a"), [ at_ "a" "k" "2"; at_ "b" "k" "1" ], [].
  eexists. split; [reflexivity|]. split; [reflexivity|]. repeat split; vm_compute; reflexivity.
Qed.

(* exclusive c14n: declarations nobody visibly utilises are dropped wherever they stand (Example; for all trees this is
   exercised by the correspondence run only) *)
Example exc_drops_unused_declarations_example :
  canon_model (CExc "" false)
    (Elem "a" "R" [ at_ "xmlns" "u" "urn:unused"; at_ "xmlns" "a" "urn:x:a"; at_ "xmlns" "b" "urn:x:b" ]
       [ Elem "" "K" [ at_ "xmlns" "v" "urn:unused2"; at_ "b" "k" "1"; at_ "xmlns" "a" "urn:x:a" ] [ Elem "a" "L" [] [] ] ])
  = Some "<a:R xmlns:a=""urn:x:a""><K xmlns:b=""urn:x:b"" b:k=""1""><a:L></a:L></K></a:R>".
Proof. vm_compute. reflexivity. Qed.

(* ================================================================ (e) through the signature model (Dsig.v with canon := canon_model) *)
(* removing the signature element at path p from two trees that differ by attribute order gives two trees that differ by
   attribute order *)
Lemma kids_permuted_nth : forall l l' i k, kids_permuted l l' -> nth_error l i = Some k ->
  exists k', nth_error l' i = Some k' /\ attrs_permuted k k'.
Proof.
  induction l as [|x r IH]; intros [|x' r'] i k P N; try contradiction; [destruct i; discriminate N|].
  cbn [kids_permuted] in P. destruct P as [Px Pr]. destruct i as [|j]; cbn [nth_error] in *.
  - injection N as <-. eauto.
  - eapply IH; eassumption.
Qed.
Lemma kids_permuted_remove : forall l l' i, kids_permuted l l' -> kids_permuted (remove_nth i l) (remove_nth i l').
Proof.
  induction l as [|x r IH]; intros [|x' r'] i P; try contradiction; [destruct i; exact I|].
  cbn [kids_permuted] in P. destruct P as [Px Pr]. destruct i as [|j]; cbn [remove_nth kids_permuted]; [exact Pr | split; [exact Px | apply IH; exact Pr]].
Qed.
Lemma kids_permuted_replace : forall l l' i k k', kids_permuted l l' -> attrs_permuted k k' ->
  kids_permuted (replace_nth i k l) (replace_nth i k' l').
Proof.
  induction l as [|x r IH]; intros [|x' r'] i k k' P Pk; try contradiction; [destruct i; exact I|].
  cbn [kids_permuted] in P. destruct P as [Px Pr]. destruct i as [|j]; cbn [replace_nth kids_permuted]; [split; assumption | split; [exact Px | apply IH; assumption]].
Qed.
Lemma kids_sort_total_nth : forall l i k, kids_sort_total l = true -> nth_error l i = Some k -> all_sort_total k = true.
Proof.
  induction l as [|x r IH]; intros i k T N; [destruct i; discriminate N|].
  cbn [kids_sort_total] in T. apply andb_true_iff in T as [Tx Tr]. destruct i as [|j]; cbn [nth_error] in N; [injection N as <-; exact Tx | eapply IH; eassumption].
Qed.
Lemma kids_sort_total_remove : forall l i, kids_sort_total l = true -> kids_sort_total (remove_nth i l) = true.
Proof.
  induction l as [|x r IH]; intros i T; [destruct i; reflexivity|].
  cbn [kids_sort_total] in T. apply andb_true_iff in T as [Tx Tr]. destruct i as [|j]; cbn [remove_nth kids_sort_total]; [exact Tr | rewrite Tx, (IH j Tr); reflexivity].
Qed.
Lemma kids_sort_total_replace : forall l i k, kids_sort_total l = true -> all_sort_total k = true -> kids_sort_total (replace_nth i k l) = true.
Proof.
  induction l as [|x r IH]; intros i k T Tk; [destruct i; reflexivity|].
  cbn [kids_sort_total] in T. apply andb_true_iff in T as [Tx Tr]. destruct i as [|j]; cbn [replace_nth kids_sort_total]; [rewrite Tk, Tr; reflexivity | rewrite Tx, (IH j k Tr Tk); reflexivity].
Qed.

Lemma remove_at_path_permuted : forall p n n' b,
  all_sort_total n = true -> attrs_permuted n n' -> remove_at_path n p = Some b ->
  exists b', remove_at_path n' p = Some b' /\ attrs_permuted b b' /\ all_sort_total b = true.
Proof.
  induction p as [|i r IH]; intros n n' b T P R; [discriminate R|].
  destruct n as [sp tg a k| | | | ]; try discriminate R.
  destruct n' as [sp' tg' a' k'| | | | ]; try contradiction.
  change (sp = sp' /\ tg = tg' /\ Permutation a a' /\ kids_permuted k k') in P. destruct P as (<- & <- & Pa & Pk).
  change (sort_total a && kids_sort_total k = true) in T. apply andb_true_iff in T as [Ta Tk].
  cbn [remove_at_path] in *. destruct (nth_error k i) as [c|] eqn:N; [|discriminate R].
  destruct (kids_permuted_nth k k' i c Pk N) as (c' & N' & Pc). rewrite N'.
  destruct c as [csp ctg ca ck| | | | ]; try discriminate R.
  destruct c' as [csp' ctg' ca' ck'| | | | ]; try contradiction.
  destruct r as [|j r'].
  - injection R as <-. eexists. split; [reflexivity|]. split.
    + change (sp = sp /\ tg = tg /\ Permutation a a' /\ kids_permuted (remove_nth i k) (remove_nth i k')).
      repeat split; [exact Pa | apply kids_permuted_remove; exact Pk].
    + change (sort_total a && kids_sort_total (remove_nth i k) = true). rewrite Ta, kids_sort_total_remove by exact Tk. reflexivity.
  - destruct (remove_at_path (Elem csp ctg ca ck) (j :: r')) as [c2|] eqn:R2; [|discriminate R]. injection R as <-.
    destruct (IH _ _ c2 (kids_sort_total_nth k i _ Tk N) Pc R2) as (c2' & R2' & Pc2 & Tc2). rewrite R2'.
    eexists. split; [reflexivity|]. split.
    + change (sp = sp /\ tg = tg /\ Permutation a a' /\ kids_permuted (replace_nth i c2 k) (replace_nth i c2' k')).
      repeat split; [exact Pa | apply kids_permuted_replace; assumption].
    + change (sort_total a && kids_sort_total (replace_nth i c2 k) = true). rewrite Ta, kids_sort_total_replace by assumption. reflexivity.
Qed.

(* PARTIAL lift of (c): for the usual transform list (enveloped-signature, then an inclusive canonicalisation c0), if the
   trees on which the reference is evaluated differ by attribute order anywhere (the Signature element included: it is
   removed before canonicalisation), the canonicaliser is asked about two elements with the SAME canonical bytes -- so the
   digest compared with DigestValue is the same.  Gap (not proved): that findSignature leaves behind trees that differ by
   attribute order only, with the same signature path and reference, when it is given such trees. *)
Theorem digest_input_ignores_attribute_order : forall root1 root2 p r t1 t2 c0 el1 a1,
  ref_transforms r = [t1; t2] -> tr_alg t1 = alg_enveloped -> c14n_of t2 = Some c0 -> inclusive c0 = true ->
  all_sort_total root1 = true -> attrs_permuted root1 root2 ->
  transform root1 p r = Ok (el1, a1) ->
  exists el2, transform root2 p r = Ok (el2, a1) /\ canon_model a1 el2 = canon_model a1 el1.
Proof.
  intros root1 root2 p r t1 t2 c0 el1 a1 HT H1 H2 I T P X.
  apply (transform_enveloped_then_c14n root1 p r t1 t2 c0 el1 a1 HT H1 H2) in X as [R ->].
  destruct (remove_at_path_permuted p root1 root2 el1 T P R) as (el2 & R2 & P2 & T2).
  exists el2. split; [apply (transform_enveloped_then_c14n root2 p r t1 t2 c0 el2 c0 HT H1 H2); split; [exact R2 | reflexivity]|].
  apply canon_ignores_attribute_order_inclusive; assumption.
Qed.

(* PARTIAL lift of (a): whatever the trees, if the elements the canonicaliser is asked about differ by comments only and
   the reference names a without-comments algorithm, the digest input is the same *)
Theorem digest_input_ignores_comments : forall reparse root1 root2 el1 el2 a,
  obs_ref_query canon_model reparse root1 = Ok (el1, a) -> obs_ref_query canon_model reparse root2 = Ok (el2, a) ->
  keeps_comments a = false -> strip_comments el1 = strip_comments el2 ->
  obs_ref_bytes canon_model reparse root1 = obs_ref_bytes canon_model reparse root2.
Proof.
  intros reparse root1 root2 el1 el2 a Q1 Q2 K E. unfold obs_ref_bytes. rewrite Q1, Q2. cbn [bind fst snd].
  rewrite (canon_same_modulo_comments a el1 el2 K E). reflexivity.
Qed.

Lemma canon_values_recovered : forall s,
  valid_xml_text s = true ->
  canon_text_read (etree_escape CanonText s) = s /\ canon_attr_read (etree_escape CanonAttr s) = s.
Proof. intros s V. exact (conj (canon_text_recovers_value s V) (canon_attr_recovers_value s V)). Qed.

Definition ex_signed (flip : bool) : node :=
  Elem "a" "R" ((if flip then @rev attr else fun l => l) [ at_ "" "ID" "_1"; at_ "xmlns" "a" "urn:x:a"; at_ "" "Version" "2.0" ])
    [ Elem "ds" "Signature" ((if flip then @rev attr else fun l => l) [ at_ "xmlns" "ds" ds_ns; at_ "" "Id" "s" ]) [ Text "..." ];
      Elem "a" "K" ((if flip then @rev attr else fun l => l) [ at_ "" "z" "1"; at_ "a" "y" "2"; at_ "xml" "lang" "en" ]) [ Text "t" ] ].
Definition ex_ref : reference :=
  {| ref_uri := "#_1"; ref_digest_value := ""; ref_digest_alg := "";
     ref_transforms := [ {| tr_alg := alg_enveloped; tr_prefix_list := None |}; {| tr_alg := alg_c11; tr_prefix_list := None |} ] |}.
Example digest_input_ignores_attribute_order_example :
  all_sort_total (ex_signed false) = true /\ attrs_permuted (ex_signed false) (ex_signed true) /\ ex_signed false <> ex_signed true /\
  (exists el1 el2, transform (ex_signed false) [0%nat] ex_ref = Ok (el1, C11 false) /\
                   transform (ex_signed true) [0%nat] ex_ref = Ok (el2, C11 false) /\ el1 <> el2 /\
                   canon_model (C11 false) el1 = canon_model (C11 false) el2 /\
                   canon_model (C11 false) el1 = Some "<a:R xmlns:a=""urn:x:a"" ID=""_1"" Version=""2.0""><a:K z=""1"" xml:lang=""en"" a:y=""2"">t</a:K></a:R>").
Proof.
  split; [vm_compute; reflexivity|]. split.
  - unfold ex_signed. cbn [attrs_permuted]. repeat split; apply Permutation_rev.
  - split; [intros H; discriminate H|]. do 2 eexists. split; [vm_compute; reflexivity|]. split; [vm_compute; reflexivity|].
    split; [intros H; discriminate H|]. split; vm_compute; reflexivity.
Qed.
