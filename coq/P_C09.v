(* P_C09.v — property C09: witnesses of the panics of the code BEFORE commit 429ddf8 (the finding that was repaired),
   the same inputs on the current code, and the (by construction) result-xor-error shape of the tree-level entry points. *)
From V Require Import Base Time Xml Ns Types Profile Generated Decode Response Decrypt P_Decrypt P_DecryptTree.
From V Require Escape.
Local Open Scope string_scope.
Local Open Scope list_scope.

(* concrete oracles for the witnesses: every RSA unwrap yields a 16-byte key, CBC "decryption" is the identity
   (so the ciphertext after the IV IS the padded plaintext), GCM authentication always fails *)
Definition w_key : string := "0123456789abcdef".
Definition w_oaep (_ : hash_id) (_ : string) : option string := Some w_key.
Definition w_pkcs1 (_ : string) : option string := Some w_key.
Definition w_gcm (_ _ _ : string) : option string := None.
Definition w_cbc (_ _ d : string) : string := d.
Definition w_sha (_ : string) : string := "".
Definition w_cert : sp_cert := {| sc_chain := ["DER"]; sc_key := KRsa |}.
Definition w_ek : enc_key :=
  {| ek_x509 := ""; ek_cipher_value := "QUJD"; ek_method := {| em_algorithm := t_MethodRSAOAEP; em_digest := None |} |}.
Definition w_none : enc_key := {| ek_x509 := ""; ek_cipher_value := ""; ek_method := {| em_algorithm := ""; em_digest := None |} |}.
Definition w_ea (alg : string) (data : string) : enc_assertion :=
  {| ea_method := {| em_algorithm := alg; em_digest := None |}; ea_key := w_ek; ea_det_key := w_none;
     ea_cipher_value := Escape.base64_encode data |}.

Fixpoint rep (n : nat) (c : ascii) : string := match n with O => EmptyString | S m => String c (rep m c) end.
Definition zeros (n : nat) : string := rep n (ascii_of_N 0).

Definition is_panic {A} (o : outcome A) : bool := match o with OPanic _ => true | ORet _ => false end.
Definition is_err {A} (o : outcome A) : bool := match o with ORet (Err _) => true | _ => false end.

Definition unrepaired := decrypt_bytes_unrepaired w_oaep w_pkcs1 w_gcm w_cbc w_sha (Some w_cert).
Definition repaired := decrypt_bytes w_oaep w_pkcs1 w_gcm w_cbc w_sha (Some w_cert).

(* the five inputs of the finding *)
Definition in_cbc_empty := w_ea t_MethodAES128CBC "".                                       (* empty CBC data *)
Definition in_cbc_iv_only := w_ea t_MethodAES256CBC (rep 16 "i"%char).                       (* IV only *)
Definition in_cbc_all_zero := w_ea t_MethodAES128CBC (rep 16 "i"%char ++ zeros 16)%string.   (* all-zero plaintext *)
Definition in_cbc_big_pad := w_ea t_MethodAES128CBC (rep 16 "i"%char ++ rep 15 "x"%char ++ String (ascii_of_N 200) "")%string. (* pad byte > length *)
Definition in_gcm_short := w_ea t_MethodAES128GCM "short".                                   (* GCM data shorter than the nonce *)

(* "DecryptBytes never panics" is FALSE of the code before the repair: five witnesses *)
Lemma decrypt_bytes_unrepaired_panics :
  exists rsa_oaep rsa_pkcs1 gcm_open cbc_decrypt sha1_hex cert e1 e2 e3 e4 e5,
    let f := decrypt_bytes_unrepaired rsa_oaep rsa_pkcs1 gcm_open cbc_decrypt sha1_hex (Some cert) in
    (exists w, f e1 = OPanic w) /\ (exists w, f e2 = OPanic w) /\ (exists w, f e3 = OPanic w) /\
    (exists w, f e4 = OPanic w) /\ (exists w, f e5 = OPanic w).
Proof.
  exists w_oaep, w_pkcs1, w_gcm, w_cbc, w_sha, w_cert, in_cbc_empty, in_cbc_iv_only, in_cbc_all_zero, in_cbc_big_pad, in_gcm_short.
  cbv zeta. repeat split; vm_compute; eexists; reflexivity.
Qed.

(* which panic each witness is *)
Example unrepaired_witness_sites :
  unrepaired in_cbc_empty = OPanic "slice bounds out of range: data[:BlockSize], data[BlockSize:]" /\
  unrepaired in_cbc_iv_only = OPanic "index out of range [-1]" /\
  unrepaired in_cbc_all_zero = OPanic "index out of range [-1]" /\
  unrepaired in_cbc_big_pad = OPanic "slice bounds out of range: data[:lastGoodIndex]" /\
  unrepaired in_gcm_short = OPanic "slice bounds out of range: data[:NonceSize], data[NonceSize:]".
Proof. vm_compute. repeat split. Qed.

(* the current code returns an error on each of them *)
Example repaired_on_witnesses :
  map (fun e => is_err (repaired e)) [in_cbc_empty; in_cbc_iv_only; in_cbc_all_zero; in_cbc_big_pad; in_gcm_short]
  = [true; true; true; true; true].
Proof. vm_compute. reflexivity. Qed.

(* non-vacuity of the totality theorem: a well formed CBC message decrypts (identity "cipher": data after the IV is
   plaintext "hello" + 10 filler bytes + pad length 11) *)
Example repaired_decrypts :
  repaired (w_ea t_MethodAES128CBC (rep 16 "i"%char ++ "hello" ++ rep 10 "f"%char ++ String (ascii_of_N 11) "")%string) = ORet (Ok "hello").
Proof. vm_compute. reflexivity. Qed.

(* ---------------------------------------------------------------- tree-level entry points *)
(* The entry points of Response.v are total Gallina functions into [res]: "exactly one of result / error" holds of
   them BY CONSTRUCTION of the type; this lemma only records that fact. The content of C09 is in the theorems
   about the modelled panic sites (decrypt_bytes_total, decrypt_symmetric_key_total, decrypt_assertions_o_refines). *)
Lemma res_exactly_one {A} (r : res A) :
  ((exists a, r = Ok a) \/ (exists e, r = Err e)) /\ ~ ((exists a, r = Ok a) /\ (exists e, r = Err e)).
Proof.
  destruct r as [a|e]; split.
  - left; eexists; reflexivity.
  - intros [_ [e H]]; discriminate.
  - right; eexists; reflexivity.
  - intros [[a H] _]; discriminate.
Qed.

Definition xor_res {A} (r : res A) : Prop :=
  ((exists a, r = Ok a) \/ (exists e, r = Err e)) /\ ~ ((exists a, r = Ok a) /\ (exists e, r = Err e)).

Lemma entry_points_xor dsig decrypt cfg now root :
  xor_res (validate_response_tree dsig decrypt cfg now root) /\
  xor_res (retrieve_assertion_info_tree dsig decrypt cfg now root) /\
  xor_res (validate_logout_response_tree dsig cfg root) /\
  xor_res (validate_logout_request_tree dsig cfg root).
Proof. repeat split; apply res_exactly_one. Qed.
