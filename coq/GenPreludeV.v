(* GenPreludeV.v — target combinators of the function-body translator for the validation-context unit
   (gen/unit_vctx.go -> GenVctx.v): decode_response.go validationContext / validateElementSignature.
   The certificate store and the clock are opaque handles: what matters is WHICH store and WHICH clock reach goxmldsig.
   Executable; no proofs of properties. *)
From V Require Import Base Xml GenPrelude.
Local Open Scope string_scope.

(* the two fields of the SP this code reads: sp.IDPCertificateStore (interface: nil or a store), sp.Clock ( *dsig.Clock: nil
   = the wall clock, or the injected clock) *)
Record vsp := { vs_store : option N; vs_clock : option N }.

(* dsig.ValidationContext *)
Record vctx := { vc_store : option N; vc_id_attribute : string; vc_clock : option N }.

(* dsig.NewDefaultValidationContext(store) (goxmldsig v1.5.0 validate.go): IdAttribute "ID", no clock *)
Definition new_default_vctx (store : option N) : vctx := {| vc_store := store; vc_id_attribute := "ID"; vc_clock := None |}.
(* ctx.Clock = c *)
Definition set_vc_clock (c : option N) (v : vctx) : vctx :=
  {| vc_store := vc_store v; vc_id_attribute := vc_id_attribute v; vc_clock := c |}.

(* ctx.Validate(el): ( *etree.Element, error ) with a non-nil element beside a nil error *)
Definition vctx_validate (validate : vctx -> node -> res node) (ctx : vctx) (el : node) : res (option node) :=
  res_some (validate ctx el).
