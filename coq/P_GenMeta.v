(* P_GenMeta.v — Metadata() and MetadataWithSLO() as TRANSLATED from /repo's saml.go on this run (GenMeta.v: the nested
   composite literals field by field, the validity arithmetic on int64 / time.Duration with wrap-around, the calls of the
   translated key getters) compute, for every configuration, clock reading, hour count and for either answer of the
   `encryptionCertBytes != nil` test on an empty slice, exactly the hand-written model Metadata.v that all C19 theorems are
   about — and never panic. *)
From V Require Import Base Time Escape Generated Decode Keys Metadata P_Keys GenPrelude GenFuncs P_GenFuncs P_GenKeys GenPreludeMeta GenMeta.
Local Open Scope string_scope.
Local Open Scope list_scope.
Local Open Scope Z_scope.

Lemma strlen_gt0 (s : string) : (Z.of_nat (String.length s) >? 0) = negb (s =?s "").
Proof. destruct s as [|a s]; [reflexivity|]. cbn [String.length String.eqb negb]. apply Z.gtb_lt. lia. Qed.

(* time.Hour * 24 * 7, a constant expression of type Duration *)
Lemma seven_days_const : i64_mul (i64_mul time_Hour 24) 7 = seven_days_ns.
Proof. vm_compute. reflexivity. Qed.

(* operand order of the wrapping product is immaterial (keeps the proof below stable under `time.Hour * Duration(h)`) *)
Lemma i64_mul_comm a b : i64_mul a b = i64_mul b a.
Proof. unfold i64_mul. rewrite Z.mul_comm. reflexivity. Qed.

(* a certificate returned by Get*CertBytes beside a nil error is not empty, hence not nil *)
Lemma cert_bytes_not_nil u c ec : get_encryption_cert_bytes c = Ok ec -> bytes_is_nil u ec = false.
Proof.
  intros H. apply get_encryption_cert_bytes_ok in H as [_ N]. unfold bytes_is_nil.
  apply String.eqb_neq in N. rewrite N. reflexivity.
Qed.

Theorem G_Metadata_is_model : forall (c : md_config) (now : instant) (nil_of_empty : bool),
  G_Metadata c now nil_of_empty = PVal (res_some (metadata c now)).
Proof.
  intros c now u. unfold G_Metadata, metadata, run_fn. cbv zeta.
  rewrite G_getSigningCert_eq.
  destruct (get_signing_cert (mc_keys c)) as [sc|e]; [|reflexivity].
  cbn [err_of_res is_nil negb bind bindc]. rewrite strlen_gt0.
  rewrite G_GetEncryptionCertBytes_eq.
  destruct (get_encryption_cert_bytes (mc_keys c)) as [ec|e] eqn:HE.
  2:{ destruct (sc =?s ""); reflexivity. }
  rewrite (cert_bytes_not_nil u _ _ HE). rewrite seven_days_const.
  destruct (sc =?s ""); reflexivity.
Qed.

Theorem G_MetadataWithSLO_is_model : forall (c : md_config) (now : instant) (validity_hours : Z),
  G_MetadataWithSLO c now validity_hours = PVal (res_some (metadata_with_slo c now validity_hours)).
Proof.
  intros c now h. unfold G_MetadataWithSLO, metadata_with_slo, run_fn.
  rewrite G_GetSigningCertBytes_eq.
  destruct (get_signing_cert_bytes (mc_keys c)) as [sc|e]; [|reflexivity].
  cbn [err_of_res is_nil negb bind]. rewrite G_GetEncryptionCertBytes_eq.
  destruct (get_encryption_cert_bytes (mc_keys c)) as [ec|e]; [|reflexivity].
  cbn [err_of_res is_nil negb bind].
  destruct (h <=? 0); cbn [bindc]; try rewrite (i64_mul_comm time_Hour); reflexivity.
Qed.

(* no nil dereference, index or conversion panic for any input *)
Theorem metadata_never_panics c now h u :
  (exists v, G_Metadata c now u = PVal v) /\ (exists v, G_MetadataWithSLO c now h = PVal v).
Proof. split; eexists; [apply G_Metadata_is_model | apply G_MetadataWithSLO_is_model]. Qed.
