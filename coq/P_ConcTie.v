(* P_ConcTie.v — the tie of the C17 model to the CURRENT source of /repo (Generated.v is rewritten by gen/
   on every run). Kept apart from P_Conc.v so that the interleaving proofs are not rebuilt when /repo changes. *)
From V Require Import Base ConcDefs Generated Conc.
Local Open Scope string_scope.
Local Open Scope list_scope.

(* The ordered lock/access actions gen/ extracts from the body of SigningContext() are exactly the actions the
   thread program of Conc.v performs. Removing a lock call, moving a field write after Unlock, adding a second
   nil test, caching something else in a receiver field ... make gen/ emit another list and break this. *)
Lemma shape_is_modelled_shape : signing_ctx_shape = modelled_shape.
Proof. reflexivity. Qed.

(* every assignment to a receiver field in a method of SAMLServiceProvider is one of the two configuration-time
   setters or the lazily created signing context *)
Lemma only_setters_and_lazy_ctx_write_sp : forallb allowed_write sp_field_writes = true.
Proof. reflexivity. Qed.

(* not vacuous: the generated lists are not empty, and the lazy write is among them *)
Example field_writes_nonempty : In ("SigningContext", "signingContext") sp_field_writes /\ List.length signing_ctx_shape = 20.
Proof. split; [cbn; auto | reflexivity]. Qed.

(* allowed_write rejects a cached validation context or a defaulted clock *)
Example allowed_write_rejects :
  allowed_write ("ValidateEncodedResponse", "Clock") = false /\ allowed_write ("validationContext", "cachedCtx") = false.
Proof. split; reflexivity. Qed.
