(* P_GenKeysUnit.v — the bodies of SetSPKeyStore, SetSPSigningKeyStore (saml.go) and getDecryptCert (decode_response.go) as
   translated from /repo's source on this run (GenKeys.v) equal the hand-written model Keys.v, for every configuration,
   clock, key store and certificate-parser behaviour; in particular they never panic. *)
From Coq Require Import Lia.
From V Require Import Base Time Types Generated Keys GenPrelude GenPreludeK GenKeys.
Local Open Scope string_scope.
Local Open Scope list_scope.

(* the setters: the receiver after the call and the returned error *)
Definition setter_result (c : keycfg) (r : res keycfg) : keycfg * res unit :=
  match r with Ok c' => (c', Ok tt) | Err e => (c, Err e) end.

Theorem G_SetSPKeyStore_is_model c now ks :
  G_SetSPKeyStore c now ks = PVal (setter_result c (set_sp_key_store c ks)).
Proof.
  unfold G_SetSPKeyStore, set_sp_key_store, setter_result, set_kc_enc_override.
  destruct ks as [k|]; cbn; [destruct (ks_signer k); cbn|]; reflexivity.
Qed.

Theorem G_SetSPSigningKeyStore_is_model c now ks :
  G_SetSPSigningKeyStore c now ks = PVal (setter_result c (set_sp_signing_key_store c ks)).
Proof.
  unfold G_SetSPSigningKeyStore, set_sp_signing_key_store, setter_result, set_kc_sign_override.
  destruct ks as [k|]; cbn; [destruct (ks_signer k); cbn|]; reflexivity.
Qed.

Section WithParser.
  Variable parse_cert : string -> option (instant * instant).

  Definition decrypt_cert_result (r : res tls_cert) : res (option tls_cert) :=
    match r with Ok dc => Ok (Some dc) | Err e => Err e end.

  Lemma zlen_lt1 (s : string) : (Z.of_nat (String.length s) <? 1)%Z = (s =?s "").
  Proof.
    destruct s as [|a s]; [reflexivity|].
    cbn [String.length String.eqb]. destruct (Z.ltb_spec (Z.of_nat (S (String.length s))) 1); [lia|reflexivity].
  Qed.

  Lemma zpos_lt1 p : (Z.pos p <? 1)%Z = false.
  Proof. destruct p; reflexivity. Qed.

  Theorem G_getDecryptCert_is_model c now validate :
    G_getDecryptCert parse_cert c now validate = PVal (decrypt_cert_result (get_decrypt_cert parse_cert validate now c)).
  Proof.
    destruct c as [ef sf eo so].
    unfold G_getDecryptCert, get_decrypt_cert, decrypt_cert_result, decrypt_cert_of_field, apply_override,
      validate_encryption_cert, parse_cert_call, e_no_decrypt_certs, e_getting_keypair, e_empty_decrypt_cert,
      e_invalid_x509, e_not_valid_now.
    cbn [kc_enc_override kc_enc_field is_nil andb negb].
    destruct eo as [k|]; destruct ef as [[pk certs|r]|]; cbn -[String.eqb].
    all: try reflexivity.
    all: try (destruct r as [[kid cb]|e]; cbn -[String.eqb]); try reflexivity.
    all: destruct validate; cbn -[String.eqb]; try reflexivity.
    all: repeat match goal with
         | |- context [match ?l with [] => _ | _ :: _ => _ end] => is_var l; destruct l; cbn -[String.eqb]
         end; try reflexivity.
    all: rewrite ?zlen_lt1, ?zpos_lt1; cbn -[String.eqb].
    all: repeat match goal with
         | |- context [(?s =?s "")] => destruct (s =?s ""); cbn -[String.eqb]; try reflexivity
         | |- context [parse_cert ?s] => destruct (parse_cert s) as [[nb na]|]; cbn -[String.eqb]; try reflexivity
         | |- context [ibefore ?a ?b] => destruct (ibefore a b); cbn -[String.eqb]; try reflexivity
         | |- context [iafter ?a ?b] => destruct (iafter a b); cbn -[String.eqb]; try reflexivity
         end.
  Qed.

  (* never panics: for every configuration (no non-nil precondition on anything but the receiver) *)
  Corollary getDecryptCert_never_panics c now validate : G_getDecryptCert parse_cert c now validate <> PPanic.
  Proof. rewrite G_getDecryptCert_is_model. discriminate. Qed.
End WithParser.
