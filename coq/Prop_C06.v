(* Prop_C06.v — property C06: audience / one-time-use / proxy warnings mirror the conditions exactly.
   ONLY theorem statements closed by [exact lemma], each followed by Print Assumptions. *)
From V Require Import Base Time Types Profile P_Profile P_C06.

(* the warning is raised exactly when some restriction contains no audience equal to the configured one *)
Theorem C06_not_in_audience_iff : forall cfg now a w,
  verify_conditions cfg now a = Ok w ->
  exists c, a_conditions a = Some c /\
    (w_not_in_audience w = true <->
     exists R, In R (c_audience_restrictions c) /\ forall x, In x R -> x <> cfg_audience cfg).
Proof. exact not_in_audience_exact. Qed.
Print Assumptions C06_not_in_audience_iff.

Theorem C06_no_restriction_no_warning : forall cfg now a w c,
  verify_conditions cfg now a = Ok w -> a_conditions a = Some c ->
  c_audience_restrictions c = [] -> w_not_in_audience w = false.
Proof. exact no_restriction_no_warning. Qed.
Print Assumptions C06_no_restriction_no_warning.

Theorem C06_one_time_use_and_proxy_mirror : forall cfg now a w c,
  verify_conditions cfg now a = Ok w -> a_conditions a = Some c ->
  w_one_time_use w = c_one_time_use c /\ w_proxy_restriction w = c_proxy_restriction c.
Proof. exact otu_proxy_mirror. Qed.
Print Assumptions C06_one_time_use_and_proxy_mirror.

(* the caller-facing summary carries exactly the warnings of the FIRST assertion *)
Theorem C06_info_warnings_are_first_assertions : forall cfg now r i,
  retrieve_info_of cfg now r = Ok i ->
  exists a rest, r_assertions r = a :: rest /\ verify_conditions cfg now a = Ok (ai_warning_info i).
Proof. exact info_warnings_first. Qed.
Print Assumptions C06_info_warnings_are_first_assertions.

(* ---- "every multiset of Audience values": what the warning does not depend on ---- *)
(* [covers l1 l2]: every restriction of l1 has a restriction of l2 whose audiences all occur in it. Two assertions whose
   restriction lists cover each other (any order of restrictions, any order / multiplicity of audiences inside one,
   repeated restrictions), judged at any two instants, get the same audience warning *)
Theorem C06_audience_warning_depends_on_member_sets_only : forall cfg now1 now2 a1 a2 w1 w2 c1 c2,
  verify_conditions cfg now1 a1 = Ok w1 -> verify_conditions cfg now2 a2 = Ok w2 ->
  a_conditions a1 = Some c1 -> a_conditions a2 = Some c2 ->
  covers (c_audience_restrictions c1) (c_audience_restrictions c2) ->
  covers (c_audience_restrictions c2) (c_audience_restrictions c1) ->
  w_not_in_audience w1 = w_not_in_audience w2.
Proof. exact audience_warning_depends_on_member_sets_only. Qed.
Print Assumptions C06_audience_warning_depends_on_member_sets_only.

Theorem C06_non_time_warnings_clock_independent : forall cfg now1 now2 a w1 w2,
  verify_conditions cfg now1 a = Ok w1 -> verify_conditions cfg now2 a = Ok w2 ->
  w_not_in_audience w1 = w_not_in_audience w2 /\ w_one_time_use w1 = w_one_time_use w2 /\
  w_proxy_restriction w1 = w_proxy_restriction w2.
Proof. exact non_time_warnings_clock_independent. Qed.
Print Assumptions C06_non_time_warnings_clock_independent.

(* restrictions are conjunctive: more restrictions can only add the warning *)
Theorem C06_more_restrictions_more_warning : forall cfg now1 now2 a1 a2 w1 w2 c1 c2,
  verify_conditions cfg now1 a1 = Ok w1 -> verify_conditions cfg now2 a2 = Ok w2 ->
  a_conditions a1 = Some c1 -> a_conditions a2 = Some c2 ->
  incl (c_audience_restrictions c1) (c_audience_restrictions c2) ->
  w_not_in_audience w1 = true -> w_not_in_audience w2 = true.
Proof. exact more_restrictions_more_warning. Qed.
Print Assumptions C06_more_restrictions_more_warning.

(* ---- tie to the source text (GenFuncs.v is re-translated from /repo's validate.go on every run) ---- *)
From V Require Import GenPrelude GenFuncs P_GenFuncs.
Theorem C06_source_VerifyAssertionConditions_is_the_model : forall cfg now a,
  G_VerifyAssertionConditions cfg now a = PVal (res_some (verify_conditions cfg now a)).
Proof. exact G_VerifyAssertionConditions_eq. Qed.
Print Assumptions C06_source_VerifyAssertionConditions_is_the_model.

Theorem C06_source_RetrieveAssertionInfo_is_the_model : forall cfg now enc (v : res response),
  G_RetrieveAssertionInfo cfg now enc (res_some v) = PVal (res_some (retrieve_info cfg now v)).
Proof. exact G_RetrieveAssertionInfo_eq. Qed.
Print Assumptions C06_source_RetrieveAssertionInfo_is_the_model.

(* the invariance theorems on the translated source function itself *)
From V Require Import P_C06 P_C06Source.
Theorem C06_source_non_time_warnings_clock_independent : forall cfg now1 now2 a w1 w2,
  G_VerifyAssertionConditions cfg now1 a = PVal (Ok (Some w1)) ->
  G_VerifyAssertionConditions cfg now2 a = PVal (Ok (Some w2)) ->
  w_not_in_audience w1 = w_not_in_audience w2 /\ w_one_time_use w1 = w_one_time_use w2 /\
  w_proxy_restriction w1 = w_proxy_restriction w2.
Proof. exact source_non_time_warnings_clock_independent. Qed.
Print Assumptions C06_source_non_time_warnings_clock_independent.

Theorem C06_source_audience_warning_depends_on_member_sets_only : forall cfg now1 now2 a1 a2 w1 w2 c1 c2,
  G_VerifyAssertionConditions cfg now1 a1 = PVal (Ok (Some w1)) ->
  G_VerifyAssertionConditions cfg now2 a2 = PVal (Ok (Some w2)) ->
  a_conditions a1 = Some c1 -> a_conditions a2 = Some c2 ->
  covers (c_audience_restrictions c1) (c_audience_restrictions c2) ->
  covers (c_audience_restrictions c2) (c_audience_restrictions c1) ->
  w_not_in_audience w1 = w_not_in_audience w2.
Proof. exact source_audience_warning_depends_on_member_sets_only. Qed.
Print Assumptions C06_source_audience_warning_depends_on_member_sets_only.
