(* Response.v — hand-written model of gosaml2's inbound entry points at tree level
   (decode_response.go: ValidateEncodedResponse after parseResponse, decryptAssertions,
    ValidateEncodedLogoutResponsePOST; decode_logout_request.go: ValidateEncodedLogoutRequestPOST;
    retrieve_assertion.go: RetrieveAssertionInfo).

   Oracles (Section variables; the theorems hold for EVERY behaviour of them):
     dsig    : goxmldsig ValidationContext{store, clock}.Validate on an element (a copy is validated; the
               result is the re-parsed canonical bytes of the verified element)
     decrypt : the chain  unmarshal EncryptedAssertion -> getDecryptCert -> DecryptBytes -> parseResponse
               on a detached EncryptedAssertion (refined in Decrypt.v / Keys.v / Deflate.v) *)
From V Require Import Base Time Xml Ns SchemaDefs Schema Types ConcDefs Generated Profile Decode.
Local Open Scope string_scope.
Local Open Scope list_scope.

Inductive dsig_result := DOk (verified : node) | DMissing | DErr.

(* validateElementSignature(el) (decode_response.go; the signature step of the Response root and of both logout messages):
   goxmldsig's answer, except that "missing signature" — which only says that no ds:Signature REFERENCES el's ID — is not
   believed of an element that envelops a ds:Signature as a direct child (etreeutils.NSFindOneChild(el, dsig.Namespace,
   dsig.SignatureTag): default context + el's own declarations, every child element looked at costs one visit of the 1000
   budget, is sub-contexted and must have a declared prefix; first match wins).  Such an element carries a signature that does
   not verify for it (edited / shadowed ID attribute): dsig.ErrInvalidSignature; a failing lookup is returned as the error. *)
Definition validate_element_signature (dsig : node -> dsig_result) (el : node) : dsig_result :=
  match dsig el with
  | DMissing =>
      match ns_find_one_child el ds_ns ds_signature_tag with
      | Ok None => DMissing
      | Ok (Some _) => DErr           (* dsig.ErrInvalidSignature *)
      | Err _ => DErr                 (* findErr *)
      end
  | r => r
  end.

Fixpoint remove_indices_from (i : nat) (idx : list nat) (l : list node) : list node :=
  match l with
  | [] => []
  | x :: r => if existsb (Nat.eqb i) idx then remove_indices_from (S i) idx r
              else x :: remove_indices_from (S i) idx r
  end.

Definition other {A} (r : res A) : res A :=          (* fmt.Errorf("...: %v", err): typed error is lost *)
  match r with Ok a => Ok a | Err _ => Err (EOther "wrapped") end.

Definition flag_assertion (a : assertion) : assertion :=
  {| a_version := a_version a; a_id := a_id a; a_issue_instant := a_issue_instant a;
     a_issuer := a_issuer a; a_signature := a_signature a; a_subject := a_subject a;
     a_conditions := a_conditions a; a_attribute_statement := a_attribute_statement a;
     a_authn_statement := a_authn_statement a; a_signature_validated := true |}.

Definition with_flag (r : response) (flag : bool) (assertions : list assertion) (enc : nat) : response :=
  {| r_id := r_id r; r_in_response_to := r_in_response_to r; r_destination := r_destination r;
     r_version := r_version r; r_issue_instant := r_issue_instant r; r_status := r_status r;
     r_issuer := r_issuer r; r_assertions := assertions; r_encrypted_count := enc;
     r_signature_validated := flag |}.

Definition lr_with_flag (r : logout_response) (flag : bool) : logout_response :=
  {| lr_id := lr_id r; lr_in_response_to := lr_in_response_to r; lr_destination := lr_destination r;
     lr_version := lr_version r; lr_issue_instant := lr_issue_instant r; lr_status := lr_status r;
     lr_issuer := lr_issuer r; lr_signature_validated := flag |}.

Definition lq_with_flag (r : logout_request) (flag : bool) : logout_request :=
  {| lq_id := lq_id r; lq_version := lq_version r; lq_issue_instant := lq_issue_instant r;
     lq_destination := lq_destination r; lq_issuer := lq_issuer r; lq_name_id := lq_name_id r;
     lq_signature_validated := flag |}.

(* the two handlers, named so that theorems can speak about them *)
Definition decrypt_handler (decrypt : node -> res node) (ctx : nsctx) (path : list nat) (e : node)
           (st : list nat * list node) : res (list nat * list node) :=
  match path with
  | [i] => do det <- other (detach ctx e);
           do plain <- other (decrypt det);
           Ok (i :: fst st, snd st ++ [plain])
  | _ => Err (EOther "found encrypted assertion with unexpected parent element")
  end.

Definition assertion_handler (dsig : node -> dsig_result) (ctx : nsctx) (path : list nat) (e : node)
           (acc : list assertion) : res (list assertion) :=
  match path with
  | [_] =>
      do det <- other (detach ctx e);
      match dsig det with
      | DOk v => do a <- other (unmarshal_assertion v); Ok (acc ++ [flag_assertion a])
      | DMissing => Err EMissingSignature
      | DErr => Err (EOther "signature verification failed")
      end
  | _ => Err (EOther "found assertion with unexpected parent element")
  end.

Section Response.
  Variable dsig : node -> dsig_result.
  Variable decrypt : node -> res node.

  (* decryptAssertions(el): every EncryptedAssertion (assertion name space) found anywhere below [el] must be a
     direct child of [el]; each is replaced: removed, and its plaintext root appended as last child *)
  Definition decrypt_assertions (el : node) : res node :=
    do st <- find_iterate c_SAMLAssertionNamespace c_EncryptedAssertionTag (decrypt_handler decrypt) el ([], []);
    match el with
    | Elem sp tg attrs kids => Ok (Elem sp tg attrs (remove_indices_from 0 (fst st) kids ++ snd st))
    | other_node => Ok other_node
    end.

  (* the addSignedAssertion closure of the unsigned-Response path *)
  Definition signed_assertions (el : node) : res (list assertion) :=
    find_iterate c_SAMLAssertionNamespace c_AssertionTag (assertion_handler dsig) el [].

  (* ValidateEncodedResponse after base64 + parseResponse produced [root] *)
  Definition validate_response_tree (cfg : config) (now : instant) (root : node) : res response :=
    if cfg_skip_sig cfg then
      do r <- other (unmarshal_response root);
      let r := with_flag r false (r_assertions r) (r_encrypted_count r) in
      check validate cfg now r; Ok r
    else
      match validate_element_signature dsig root with
      | DErr => Err (EOther "signature verification failed")
      | DOk signed =>
          do signed' <- decrypt_assertions signed;
          do r <- other (unmarshal_response signed');
          let r := with_flag r true (r_assertions r) (r_encrypted_count r) in
          check validate cfg now r; Ok r
      | DMissing =>
          do r0 <- unmarshal_response root;            (* this error is returned unwrapped *)
          do root' <- decrypt_assertions root;
          do signed <- signed_assertions root';
          let r := with_flag r0 false signed 0 in
          check validate cfg now r; Ok r
      end.

  Definition retrieve_assertion_info_tree (cfg : config) (now : instant) (root : node) : res assertion_info :=
    retrieve_info cfg now (validate_response_tree cfg now root).

  (* the signature step shared by both logout validators: element to decode and flag *)
  Definition logout_signature_step (cfg : config) (root : node) : res (node * bool) :=
    if cfg_skip_sig cfg then Ok (root, false)
    else match validate_element_signature dsig root with
         | DOk v => Ok (v, true)
         | DMissing => Ok (root, false)
         | DErr => Err (EOther "signature verification failed")
         end.

  Definition validate_logout_response_tree (cfg : config) (root : node) : res logout_response :=
    do ef <- logout_signature_step cfg root;
    do r <- other (unmarshal_logout_response (fst ef));
    let r := lr_with_flag r (snd ef) in
    check validate_logout_response cfg r; Ok r.

  Definition validate_logout_request_tree (cfg : config) (root : node) : res logout_request :=
    do ef <- logout_signature_step cfg root;
    do r <- other (unmarshal_logout_request (fst ef));
    let r := lq_with_flag r (snd ef) in
    check validate_logout_request cfg r; Ok r.
  (* ---- the code BEFORE the repair 541e863 (finding F12): validateElementSignature was goxmldsig's answer as it came, so a
     present signature that no longer references its element (ErrMissingSignature) continued as "unsigned".  Kept for the
     refutation C02_present_signature_downgraded_before_repair_refuted; nothing else is stated about these. ---- *)
  Definition validate_response_tree_original (cfg : config) (now : instant) (root : node) : res response :=
    if cfg_skip_sig cfg then
      do r <- other (unmarshal_response root);
      let r := with_flag r false (r_assertions r) (r_encrypted_count r) in
      check validate cfg now r; Ok r
    else
      match dsig root with
      | DErr => Err (EOther "signature verification failed")
      | DOk signed =>
          do signed' <- decrypt_assertions signed;
          do r <- other (unmarshal_response signed');
          let r := with_flag r true (r_assertions r) (r_encrypted_count r) in
          check validate cfg now r; Ok r
      | DMissing =>
          do r0 <- unmarshal_response root;
          do root' <- decrypt_assertions root;
          do signed <- signed_assertions root';
          let r := with_flag r0 false signed 0 in
          check validate cfg now r; Ok r
      end.

  Definition logout_signature_step_original (cfg : config) (root : node) : res (node * bool) :=
    if cfg_skip_sig cfg then Ok (root, false)
    else match dsig root with
         | DOk v => Ok (v, true)
         | DMissing => Ok (root, false)
         | DErr => Err (EOther "signature verification failed")
         end.

  Definition validate_logout_response_tree_original (cfg : config) (root : node) : res logout_response :=
    do ef <- logout_signature_step_original cfg root;
    do r <- other (unmarshal_logout_response (fst ef));
    let r := lr_with_flag r (snd ef) in
    check validate_logout_response cfg r; Ok r.

  Definition validate_logout_request_tree_original (cfg : config) (root : node) : res logout_request :=
    do ef <- logout_signature_step_original cfg root;
    do r <- other (unmarshal_logout_request (fst ef));
    let r := lq_with_flag r (snd ef) in
    check validate_logout_request cfg r; Ok r.
End Response.

(* ---- table-driven oracles used by the correspondence run ---- *)
Fixpoint dsig_table (t : list (node * dsig_result)) (el : node) : dsig_result :=
  match t with
  | [] => DErr                                  (* an element the harness did not anticipate: reported as mismatch *)
  | (k, v) :: r => if detached_eqb k el then v else dsig_table r el
  end.
Fixpoint decrypt_table (t : list (node * res node)) (el : node) : res node :=
  match t with
  | [] => Err (EOther "decrypt oracle: unknown element")
  | (k, v) :: r => if detached_eqb k el then v else decrypt_table r el
  end.
