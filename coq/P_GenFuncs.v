(* P_GenFuncs.v — the function bodies translated from /repo's Go source (GenFuncs.v, regenerated on every run) compute
   exactly the hand-written model functions of Profile.v, for every input, and never dereference nil.
   These equalities are what ties the theorems about Profile.v (P_Profile.v, P_C03..P_C06, P_Response.v) to the source
   text of validate.go / decode_response.go / decode_logout_request.go: a change to those bodies changes GenFuncs.v and
   the equalities must be re-proved. *)
From V Require Import Base Time Types SchemaDefs ConcDefs Generated Profile GenPrelude GenFuncs.

(* ---------- generic facts about the loop combinator ---------- *)
Lemma for_range_find {A R B S} (body : A -> S -> ctl R S S) (p : A -> bool) (hit : S -> S) l st :
  (forall x s, body x s = if p x then CBreak (hit s) else CNext s) ->
  @for_range A R B S body l st = CNext (if existsb p l then hit st else st).
Proof.
  intros Hb. revert st. induction l as [|x l IH]; intros st; cbn [for_range existsb]; [reflexivity|].
  rewrite Hb. destruct (p x); cbn [orb]; [reflexivity|]. apply IH.
Qed.

Lemma for_range_fold {A R B S} (body : A -> S -> ctl R S S) (f : S -> A -> S) l st :
  (forall x s, body x s = CNext (f s x)) ->
  @for_range A R B S body l st = CNext (fold_left f l st).
Proof.
  intros Hb. revert st. induction l as [|x l IH]; intros st; cbn [for_range fold_left]; [reflexivity|].
  rewrite Hb. apply IH.
Qed.

(* a loop whose body either fails with the error of [f] or goes on *)
Lemma for_range_forM {A T B S} (body : A -> S -> ctl (res T) S S) (f : A -> res unit) l st :
  (forall x s, match f x with
               | Ok _ => exists s', body x s = CNext s'
               | Err e => body x s = CRet (Err e)
               end) ->
  match forM_ f l with
  | Ok _ => exists s', @for_range A (res T) B S body l st = CNext s'
  | Err e => @for_range A (res T) B S body l st = CRet (Err e)
  end.
Proof.
  intros Hb. revert st. induction l as [|x l IH]; intros st; cbn [for_range forM_ bind].
  - exists st. reflexivity.
  - specialize (Hb x st). destruct (f x) as [[]|e]; cbn [bind].
    + destruct Hb as (s' & ->). apply IH.
    + rewrite Hb. reflexivity.
Qed.

(* case analysis on an innermost scrutinee of the goal (one that contains no further match) *)
Ltac inner_scrutinee x :=
  match x with
  | context [match ?y with _ => _ end] => inner_scrutinee y
  | _ => (is_var x; destruct x) || destruct x eqn:?
  end.
Ltac split_match :=
  match goal with
  | |- context [match ?x with _ => _ end] => inner_scrutinee x
  end.
Ltac crush := cbn; repeat (split_match; cbn in *; try congruence); try reflexivity.

(* ---------- decode_response.go / decode_logout_request.go ---------- *)
Theorem G_validateResponseAttributes_eq cfg now r :
  G_validateResponseAttributes cfg now r = PVal (validate_attrs (cfg_acs_url cfg) (r_destination r) (r_version r)).
Proof. unfold G_validateResponseAttributes, validate_attrs, nonempty, run_fn. crush. Qed.

Theorem G_validateLogoutResponseAttributes_eq cfg now r :
  G_validateLogoutResponseAttributes cfg now r = PVal (validate_attrs (cfg_slo_url cfg) (lr_destination r) (lr_version r)).
Proof. unfold G_validateLogoutResponseAttributes, validate_attrs, nonempty, run_fn. crush. Qed.

Theorem G_validateLogoutRequestAttributes_eq cfg now r :
  G_validateLogoutRequestAttributes cfg now r = PVal (validate_attrs (cfg_slo_url cfg) (lq_destination r) (lq_version r)).
Proof. unfold G_validateLogoutRequestAttributes, validate_attrs, nonempty, run_fn. crush. Qed.

(* ---------- validate.go: logout ---------- *)
Theorem G_ValidateDecodedLogoutResponse_eq cfg now r :
  G_ValidateDecodedLogoutResponse cfg now r = PVal (validate_logout_response cfg r).
Proof.
  unfold G_ValidateDecodedLogoutResponse. rewrite G_validateLogoutResponseAttributes_eq.
  unfold validate_logout_response, check_issuer, check_status, nonempty, run_fn.
  destruct (validate_attrs _ _ _) as [[]|e]; [|reflexivity]. crush.
Qed.

Theorem G_ValidateDecodedLogoutRequest_eq cfg now r :
  G_ValidateDecodedLogoutRequest cfg now r = PVal (validate_logout_request cfg r).
Proof.
  unfold G_ValidateDecodedLogoutRequest. rewrite G_validateLogoutRequestAttributes_eq.
  unfold validate_logout_request, check_issuer, nonempty, run_fn.
  destruct (validate_attrs _ _ _) as [[]|e]; [|reflexivity]. crush.
Qed.

(* ---------- validate.go: Validate ---------- *)
Theorem G_Validate_eq cfg now r :
  G_Validate cfg now r = PVal (validate cfg now r).
Proof.
  unfold G_Validate. rewrite G_validateResponseAttributes_eq.
  unfold validate. destruct (validate_attrs _ _ _) as [[]|e]; [|reflexivity].
  cbn [bind err_of_res is_nil negb].
  destruct (r_assertions r) as [|a0 l0] eqn:Hl; [reflexivity|]. rewrite <- Hl.
  replace (Z.of_nat (List.length (r_assertions r)) =? 0)%Z with false by (rewrite Hl; reflexivity).
  unfold check_issuer, check_status, nonempty, run_fn. cbv zeta.
  match goal with |- context [@for_range ?A0 ?R0 ?B0 ?S0 ?b ?l ?s] => set (body := b) end.
  assert (HL : forall st, match forM_ (validate_assertion cfg now) (r_assertions r) with
               | Ok _ => exists s', @for_range _ (res unit) unit _ body (r_assertions r) st = CNext s'
               | Err e => @for_range _ (res unit) unit _ body (r_assertions r) st = CRet (Err e)
               end).
  { intros st. apply for_range_forM. intros x s. unfold body, validate_assertion, nonempty, time_Parse_RFC3339, time_Format_RFC3339.
    crush; eexists; reflexivity. }
  clearbody body. specialize (HL (r_issuer r)).
  destruct (forM_ (validate_assertion cfg now) (r_assertions r)) as [[]|e]; [destruct HL as (s' & HL)|]; rewrite HL; crush.
Qed.

(* ---------- validate.go: VerifyAssertionConditions ---------- *)
Lemma append_loop_identity {R B W E} (body : string -> W * E * proxy_restriction -> ctl R (W * E * proxy_restriction) (W * E * proxy_restriction))
      (l acc : list string) (c : Z) (w : W) (e : E) :
  (forall x s, body x s = CNext (fst (fst s), snd (fst s), set_pr_audience (pr_audience (snd s) ++ [x]) (snd s))) ->
  @for_range _ R B _ body l (w, e, {| pr_count := c; pr_audience := acc |})
  = CNext (w, e, {| pr_count := c; pr_audience := acc ++ l |}).
Proof.
  intros Hb. revert acc. induction l as [|a l IH]; intros acc; cbn [for_range].
  - rewrite app_nil_r. reflexivity.
  - rewrite Hb. cbn [fst snd]. unfold set_pr_audience. cbn [pr_count pr_audience]. rewrite IH, <- app_assoc. reflexivity.
Qed.

Theorem G_VerifyAssertionConditions_eq cfg now a :
  G_VerifyAssertionConditions cfg now a = PVal (res_some (verify_conditions cfg now a)).
Proof.
  unfold G_VerifyAssertionConditions, verify_conditions, run_fn, time_Parse_RFC3339. cbv zeta.
  destruct (a_conditions a) as [c|]; [|reflexivity]. cbn [is_nil].
  destruct (c_not_before c =?s ""); [reflexivity|].
  destruct (parse_rfc3339 (c_not_before c)) as [nb|]; [|reflexivity]. cbn [is_nil negb].
  assert (E1 : forall w : warning_info,
     (if ibefore now nb then @CNext (res (option warning_info)) unit _ (set_w_invalid_time true w, @None err) else CNext (w, None))
     = CNext (if ibefore now nb then set_w_invalid_time true w else w, None)) by (intros; destruct (ibefore now nb); reflexivity).
  rewrite E1. cbn [bindc].
  destruct (c_not_on_or_after c =?s ""); [reflexivity|].
  destruct (parse_rfc3339 (c_not_on_or_after c)) as [noa|]; [|reflexivity]. cbn [is_nil negb].
  assert (E2 : forall w : warning_info,
     (if negb (ibefore now noa) then @CNext (res (option warning_info)) unit _ (set_w_invalid_time true w, @None err) else CNext (w, None))
     = CNext (if negb (ibefore now noa) then set_w_invalid_time true w else w, None)) by (intros; destruct (ibefore now noa); reflexivity).
  rewrite E2. cbn [bindc].
  (* the audience loops *)
  match goal with |- context [@for_range ?A0 ?R0 ?B0 ?S0 ?b (c_audience_restrictions c) ?s] =>
    rewrite (@for_range_find A0 R0 B0 S0 b (fun r => negb (restriction_matched (cfg_audience cfg) r))
               (fun q => (set_w_not_in_audience true (fst q), snd q)) (c_audience_restrictions c) s)
  end.
  2:{ intros x [w e]. cbv zeta.
      match goal with |- context [@for_range ?A0 ?R0 ?B0 ?S0 ?b x ?s] =>
        rewrite (@for_range_find A0 R0 B0 S0 b (fun au => au =?s cfg_audience cfg)
                   (fun q => (fst (fst q), snd (fst q), true)) x s)
      end.
      - cbn [bindc fst snd]. unfold restriction_matched. destruct (existsb _ x); reflexivity.
      - intros au [[w' e'] m']. cbn [fst snd]. destruct (au =?s cfg_audience cfg); reflexivity. }
  cbn [bindc fst snd]. fold (not_in_audience (cfg_audience cfg) (c_audience_restrictions c)).
  destruct (c_proxy_restriction c) as [[cnt aud]|] eqn:Hp; cbn [is_nil negb pr_count pr_audience].
  - match goal with |- context [@for_range ?A0 ?R0 ?B0 ?S0 ?b aud _] =>
      assert (HA : forall (w : warning_info) (e : option err),
                 @for_range A0 R0 B0 S0 b aud (w, e, set_pr_audience [] (set_pr_count cnt zero_proxy_restriction))
                 = CNext (w, e, {| pr_count := cnt; pr_audience := aud |}))
    end.
    { intros w e. change (set_pr_audience [] (set_pr_count cnt zero_proxy_restriction)) with {| pr_count := cnt; pr_audience := [] |}.
      rewrite append_loop_identity; [reflexivity|]. intros x [[w' e'] p']. reflexivity. }
    destruct (ibefore now nb), (ibefore now noa), (not_in_audience _ _), (c_one_time_use c);
      cbn [negb is_nil opt_of_bool bindc orb]; rewrite HA; reflexivity.
  - destruct (ibefore now nb), (ibefore now noa), (not_in_audience _ _), (c_one_time_use c); reflexivity.
Qed.

(* ---------- attribute.go: Values accessors ---------- *)
Theorem G_Values_Get_eq m now k : G_Values_Get m now k = PVal (values_get m k).
Proof.
  unfold G_Values_Get, values_get, values_lookup2, run_fn, zindex.
  destruct m as [l|]; [|reflexivity]. cbn [is_nil].
  destruct (values_lookup k l) as [a|]; [|reflexivity].
  destruct (at_values a) as [|v vs]; reflexivity.
Qed.

Theorem G_Values_GetSize_eq m now k : G_Values_GetSize m now k = PVal (values_get_size m k).
Proof.
  unfold G_Values_GetSize, values_get_size, values_lookup2, run_fn.
  destruct m as [l|]; [|reflexivity]. cbn [is_nil].
  destruct (values_lookup k l) as [a|]; reflexivity.
Qed.

Lemma index_loop {A B R Bk} (f : A -> B) (body : Z -> list B -> ctl R (list B) (list B)) (pre suf : list A) (acc : list B) :
  (forall i av, body i av = match zindex (pre ++ suf) i with None => CPanic | Some x => CNext (av ++ [f x]) end) ->
  @for_range Z R Bk (list B) body (map Z.of_nat (seq (List.length pre) (List.length suf))) acc = CNext (acc ++ map f suf).
Proof.
  intros Hb. revert pre acc Hb. induction suf as [|x suf IH]; intros pre acc Hb; cbn [List.length seq map for_range].
  - rewrite app_nil_r. reflexivity.
  - rewrite Hb. unfold zindex.
    replace (Z.of_nat (List.length pre) <? 0)%Z with false by (symmetry; apply Z.ltb_ge; apply Nat2Z.is_nonneg).
    rewrite Nat2Z.id, nth_error_app2, Nat.sub_diag by apply Nat.le_refl. cbn [nth_error].
    specialize (IH (pre ++ [x]) (acc ++ [f x])).
    rewrite app_length, Nat.add_1_r in IH. cbn [List.length] in IH.
    rewrite IH.
    + rewrite <- app_assoc. reflexivity.
    + intros i av. rewrite <- app_assoc. apply Hb.
Qed.

Theorem G_Values_GetAll_eq m now k : G_Values_GetAll m now k = PVal (values_get_all m k).
Proof.
  unfold G_Values_GetAll, values_get_all, values_lookup2, run_fn. cbv zeta.
  destruct m as [l|]; [|reflexivity]. cbn [is_nil].
  destruct (values_lookup k l) as [a|]; [|reflexivity]. cbn [andb].
  destruct (at_values a) as [|v vs] eqn:Hv; [reflexivity|]. rewrite <- Hv.
  replace (Z.of_nat (List.length (at_values a)) >? 0)%Z with true by (rewrite Hv; reflexivity).
  unfold zrange. rewrite Nat2Z.id.
  match goal with |- context [@for_range ?A0 ?R0 ?B0 ?S0 ?b _ _] =>
    pose proof (@index_loop attr_value string R0 B0 av_value b [] (at_values a) []) as HI
  end.
  cbn [List.length app] in HI. rewrite HI; [reflexivity|].
  intros i av. reflexivity.
Qed.

(* ---------- retrieve_assertion.go: RetrieveAssertionInfo ---------- *)
Lemma values_loop {R B E} (body : attribute -> assertion_info * E -> ctl R (assertion_info * E) (assertion_info * E)) attrs ai (e : E) :
  (forall a s, body a s = CNext (set_ai_values (values_set (at_name a) a (ai_values (fst s))) (fst s), snd s)) ->
  @for_range _ R B _ body attrs (ai, e)
  = CNext (set_ai_values (fold_left (fun m a => values_set (at_name a) a m) attrs (ai_values ai)) ai, e).
Proof.
  intros Hb. revert ai. induction attrs as [|a attrs IH]; intros ai; cbn [for_range fold_left].
  - destruct ai; reflexivity.
  - rewrite Hb. cbn [fst snd]. rewrite IH. destruct ai; reflexivity.
Qed.

(* ValidateEncodedResponse (modelled at tree level: Response.validate_response_tree) never returns (nil, nil): its result
   enters as [res_some v] *)
Theorem G_RetrieveAssertionInfo_eq cfg now enc (v : res response) :
  G_RetrieveAssertionInfo cfg now enc (res_some v) = PVal (res_some (retrieve_info cfg now v)).
Proof.
  unfold G_RetrieveAssertionInfo, retrieve_info, retrieve_info_of, run_fn. cbv zeta.
  destruct v as [r|e]; [|reflexivity]. cbn [res_some ptr_of_res err_of_res is_nil negb].
  destruct (r_assertions r) as [|a rest] eqn:Hl; [reflexivity|]. rewrite <- Hl.
  replace (Z.of_nat (List.length (r_assertions r)) =? 0)%Z with false by (rewrite Hl; reflexivity).
  replace (zindex (r_assertions r) 0) with (Some a) by (rewrite Hl; reflexivity).
  rewrite G_VerifyAssertionConditions_eq.
  destruct (verify_conditions cfg now a) as [w|e]; [|reflexivity]. cbn [res_some ptr_of_res err_of_res is_nil negb bind].
  destruct (a_subject a) as [sub|]; [|reflexivity]. cbn [is_nil].
  destruct (sub_name_id sub) as [nid|]; [|reflexivity]. cbn [is_nil].
  destruct (a_attribute_statement a) as [attrs|]; cbn [is_nil negb andb].
  - match goal with |- context [@for_range ?A0 ?R0 ?B0 ?S0 ?b attrs (?ai, ?e)] =>
      rewrite (@values_loop R0 B0 _ b attrs ai e)
    end.
    2:{ intros x [ai' e']. reflexivity. }
    destruct (a_authn_statement a) as [st|]; cbn [is_nil negb bindc];
      [destruct (as_authn_instant st), (as_session_not_on_or_after st)|]; destruct (cfg_allow_missing_attrs cfg); reflexivity.
  - destruct (cfg_allow_missing_attrs cfg); cbn [negb]; [|reflexivity].
    destruct (a_authn_statement a) as [st|]; cbn [is_nil negb bindc];
      [destruct (as_authn_instant st), (as_session_not_on_or_after st)|]; reflexivity.
Qed.

(* ---------- no nil dereference ---------- *)
Theorem validation_stage_never_panics cfg now :
  (forall r, exists v, G_Validate cfg now r = PVal v) /\
  (forall a, exists v, G_VerifyAssertionConditions cfg now a = PVal v) /\
  (forall r, exists v, G_ValidateDecodedLogoutResponse cfg now r = PVal v) /\
  (forall r, exists v, G_ValidateDecodedLogoutRequest cfg now r = PVal v) /\
  (forall enc r, exists v, G_RetrieveAssertionInfo cfg now enc (res_some r) = PVal v) /\
  (forall m k, (exists v, G_Values_Get m now k = PVal v) /\ (exists v, G_Values_GetSize m now k = PVal v) /\
               (exists v, G_Values_GetAll m now k = PVal v)).
Proof.
  repeat split; intros; eexists;
    first [apply G_Validate_eq | apply G_VerifyAssertionConditions_eq
          | apply G_ValidateDecodedLogoutResponse_eq | apply G_ValidateDecodedLogoutRequest_eq
          | apply G_RetrieveAssertionInfo_eq | apply G_Values_Get_eq | apply G_Values_GetSize_eq | apply G_Values_GetAll_eq].
Qed.
