(* Prop_C17.v — property C17: goroutine safety of the lazily created signing context (proved part).
   ONLY theorem statements closed by [exact lemma], each followed by Print Assumptions. *)
From V Require Import Base ConcDefs Generated Conc P_Conc P_ConcTie.

(* for every configuration, any number of goroutines and every interleaving of their calls: in no reachable
   state are two distinct goroutines about to perform conflicting accesses (one of them a write) to
   sp.signingContext or to the fields of one context object *)
Theorem C17_no_race : forall cfg s, reachable cfg s -> ~ race s.
Proof. exact no_race. Qed.
Print Assumptions C17_no_race.

(* every context a call has returned is field-for-field what a lone call builds from the configuration *)
Theorem C17_returns_configured_context : forall cfg s t o,
  reachable cfg s -> pcs s t = Done o -> heap s o = make_ctx cfg.
Proof. exact returns_configured_context. Qed.
Print Assumptions C17_returns_configured_context.

(* two racing creators (possible: there is no second nil test) build equal contexts *)
Theorem C17_creators_agree : forall cfg s t1 t2 o1 o2,
  reachable cfg s -> pcs s t1 = Done o1 -> pcs s t2 = Done o2 -> heap s o1 = heap s o2.
Proof. exact creators_agree. Qed.
Print Assumptions C17_creators_agree.

(* the lock/access shape of the CURRENT SigningContext() source is the protocol that was analysed *)
Theorem C17_shape_is_modelled_shape : signing_ctx_shape = modelled_shape.
Proof. exact shape_is_modelled_shape. Qed.
Print Assumptions C17_shape_is_modelled_shape.

(* no method of SAMLServiceProvider other than the two setters and SigningContext assigns a receiver field *)
Theorem C17_only_allowed_field_writes : forallb allowed_write sp_field_writes = true.
Proof. exact only_setters_and_lazy_ctx_write_sp. Qed.
Print Assumptions C17_only_allowed_field_writes.

(* ---- purity / determinism of the calls (the half of C17 that is not about the lock): the bodies of the validation stage,
   the message builders, the key getters, the decryption glue, the metadata and the redirect / POST builders, as TRANSLATED
   from /repo on this run, are FUNCTIONS of (configuration, clock reading, input, oracle answers): each equals a Gallina
   function of exactly those arguments (a translated body that iterated over a map, read a package-level variable, or
   assigned a receiver field other than the three listed above would not translate / not be equal).  Identical calls give
   identical outcomes and validation does not modify the configuration: the translated bodies below return no new receiver. ---- *)
From V Require Import Time Types Profile Keys Metadata GenPrelude GenFuncs GenPreludeMeta GenMeta P_GenFuncs P_GenMeta.
Theorem C17_source_validation_stage_is_a_function : forall cfg now,
  (forall r, G_validateResponseAttributes cfg now r = PVal (validate_attrs (cfg_acs_url cfg) (r_destination r) (r_version r))) /\
  (forall r, G_validateLogoutResponseAttributes cfg now r = PVal (validate_attrs (cfg_slo_url cfg) (lr_destination r) (lr_version r))) /\
  (forall q, G_validateLogoutRequestAttributes cfg now q = PVal (validate_attrs (cfg_slo_url cfg) (lq_destination q) (lq_version q))) /\
  (forall r, G_Validate cfg now r = PVal (validate cfg now r)) /\
  (forall a, G_VerifyAssertionConditions cfg now a = PVal (res_some (verify_conditions cfg now a))) /\
  (forall r, G_ValidateDecodedLogoutResponse cfg now r = PVal (validate_logout_response cfg r)) /\
  (forall q, G_ValidateDecodedLogoutRequest cfg now q = PVal (validate_logout_request cfg q)).
Proof.
  intros cfg now.
  exact (conj (G_validateResponseAttributes_eq cfg now) (conj (G_validateLogoutResponseAttributes_eq cfg now)
        (conj (G_validateLogoutRequestAttributes_eq cfg now) (conj (G_Validate_eq cfg now) (conj (G_VerifyAssertionConditions_eq cfg now)
        (conj (G_ValidateDecodedLogoutResponse_eq cfg now) (G_ValidateDecodedLogoutRequest_eq cfg now))))))).
Qed.
Print Assumptions C17_source_validation_stage_is_a_function.

Theorem C17_source_Metadata_is_a_function : forall (c : md_config) (now : instant) (nil_of_empty : bool) (h : Z),
  G_Metadata c now nil_of_empty = PVal (res_some (metadata c now)) /\
  G_MetadataWithSLO c now h = PVal (res_some (metadata_with_slo c now h)).
Proof. intros c now u h. exact (conj (G_Metadata_is_model c now u) (G_MetadataWithSLO_is_model c now h)). Qed.
Print Assumptions C17_source_Metadata_is_a_function.
