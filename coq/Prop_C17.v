(* Prop_C17.v — property C17: goroutine safety of the lazily created signing context (proved part).
   ONLY theorem statements closed by [exact lemma], each followed by Print Assumptions. *)
From V Require Import Base ConcDefs Generated Conc P_Conc P_ConcTie.

(* for every configuration, any number of goroutines and every interleaving of their calls: in no reachable
   state are two distinct goroutines about to perform conflicting accesses (one of them a write) to
   sp.signingContext or to the fields of one context object *)
Theorem C17_no_race : forall cfg s, reachable cfg s -> ~ race s.
Proof. exact no_race. Qed.
Print Assumptions C17_no_race.

(* every context a call has returned is field-for-field what a lone call builds from the configuration *)
Theorem C17_returns_configured_context : forall cfg s t o,
  reachable cfg s -> pcs s t = Done o -> heap s o = make_ctx cfg.
Proof. exact returns_configured_context. Qed.
Print Assumptions C17_returns_configured_context.

(* two racing creators (possible: there is no second nil test) build equal contexts *)
Theorem C17_creators_agree : forall cfg s t1 t2 o1 o2,
  reachable cfg s -> pcs s t1 = Done o1 -> pcs s t2 = Done o2 -> heap s o1 = heap s o2.
Proof. exact creators_agree. Qed.
Print Assumptions C17_creators_agree.

(* the lock/access shape of the CURRENT SigningContext() source is the protocol that was analysed *)
Theorem C17_shape_is_modelled_shape : signing_ctx_shape = modelled_shape.
Proof. exact shape_is_modelled_shape. Qed.
Print Assumptions C17_shape_is_modelled_shape.

(* no method of SAMLServiceProvider other than the two setters and SigningContext assigns a receiver field *)
Theorem C17_only_allowed_field_writes : forallb allowed_write sp_field_writes = true.
Proof. exact only_setters_and_lazy_ctx_write_sp. Qed.
Print Assumptions C17_only_allowed_field_writes.
