(* P_PostForm.v — lemmas about the POST-binding model (PostForm.v) for property C16. *)
From V Require Import Base Escape EscapeProofs SchemaDefs ConcDefs Generated PostForm.
Local Open Scope list_scope.
Local Open Scope string_scope.

(* ================================================================ the reader is a left fold *)
Lemma srun_app cf a b : srun cf (a ++ b) = srun (srun cf a) b.
Proof. revert cf. induction a as [|c a IH]; intros cf; cbn [append srun]; [reflexivity | apply IH]. Qed.

Definition no_dq (s : string) : bool := str_all (fun c => negb (is_ch 34 c)) s.

(* inside a double-quoted value, text without a double quote only extends the value *)
Lemma srun_dq_fill tag attrs name v toks F :
  no_dq F = true -> srun (SDQ tag attrs name v, toks) F = (SDQ tag attrs name (v ++ F), toks).
Proof.
  revert v. induction F as [|c F IH]; intros v H.
  - cbn [srun]. replace (v ++ "") with v; [reflexivity|]. induction v as [|x v IHv]; cbn [append]; [reflexivity | now rewrite <- IHv].
  - unfold no_dq in *. cbn [str_all] in H. apply andb_true_iff in H as [H1 H2]. apply negb_true_iff in H1.
    cbn [srun sstep]. rewrite H1. rewrite IH by exact H2. unfold snoc. rewrite append_assoc. reflexivity.
Qed.

Lemma structure_char_dq : forall c, implb (negb (html_structure_char c)) (negb (is_ch 34 c)) = true.
Proof. apply (byte_forall (fun c => implb (negb (html_structure_char c)) (negb (is_ch 34 c)))). vm_compute. reflexivity. Qed.

Lemma no_structure_no_dq s : html_no_structure s = true -> no_dq s = true.
Proof.
  unfold html_no_structure, no_dq. intros H. apply andb_true_iff in H as [H _].
  exact (str_all_impl _ _ structure_char_dq s H).
Qed.

Lemma apply_esc_no_structure e s : html_no_structure (apply_esc e s) = true.
Proof. destruct e; [apply html_attr_escape_no_structure | apply html_url_attr_escape_no_structure]. Qed.

Lemma apply_esc_no_dq e s : no_dq (apply_esc e s) = true.
Proof. apply no_structure_no_dq, apply_esc_no_structure. Qed.

(* ================================================================ executing the six generated templates *)
Definition the_template (k : post_kind) (empty_relay : bool) : string :=
  match nth_error (templates_of k) (if empty_relay then 1%nat else 0%nat) with Some t => t | None => "" end.

Definition compiled (k : post_kind) (empty_relay : bool) : list cseg :=
  match compile (the_template k empty_relay) with Some cs => cs | None => [] end.

(* every generated template is inside the modelled subset *)
Lemma compile_ok k e : compile (the_template k e) = Some (compiled k e).
Proof. destruct k, e; vm_compute; reflexivity. Qed.

Lemma literals_ok k e : template_literals k e = literals_of (compiled k e).
Proof. destruct k, e; vm_compute; reflexivity. Qed.

(* with an ABSTRACT escaper: the page is the literals with the escaped fields in the holes, in the order
   URL, message, relay state *)
Lemma exec_with_relay (esc : esc_kind -> string -> string) (k : post_kind) (u m r : string) :
  exec_with esc (compiled k false) [("URL", u); (message_field k, m); ("RelayState", r)]
  = Ok (interleave (literals_of (compiled k false)) [esc EUrlAttr u; esc EAttr m; esc EAttr r]).
Proof. destruct k; vm_compute; reflexivity. Qed.

Lemma exec_without_relay (esc : esc_kind -> string -> string) (k : post_kind) (u m : string) :
  exec_with esc (compiled k true) [("URL", u); (message_field k, m)]
  = Ok (interleave (literals_of (compiled k true)) [esc EUrlAttr u; esc EAttr m]).
Proof. destruct k; vm_compute; reflexivity. Qed.

Definition fills (k : post_kind) (cfg : post_config) (relay doc : string) : list string :=
  [html_url_attr_escape (endpoint k cfg); html_attr_escape (base64_encode doc)]
  ++ (if relay =?s "" then [] else [html_attr_escape relay]).

(* cross-check of gen/main.go's extraction of the action expression: it names the field the model uses *)
Lemma url_field_ok k (e : bool) cfg :
  match nth_error (url_fields_of k) (if e then 1%nat else 0%nat) with
  | Some uf => eval_url_field cfg uf = Some (endpoint k cfg)
  | None => False
  end.
Proof. destruct k, e; vm_compute; reflexivity. Qed.

Lemma template_ok k (e : bool) : nth_error (templates_of k) (if e then 1%nat else 0%nat) = Some (the_template k e).
Proof. destruct k, e; vm_compute; reflexivity. Qed.

(* the builders always succeed, and the page is the template's literals around the escaped values *)
Theorem build_post_body_shape k cfg relay doc :
  build_post_body k cfg relay doc
  = Ok (interleave (template_literals k (relay =?s "")) (fills k cfg relay doc)).
Proof.
  unfold build_post_body, fills. rewrite literals_ok.
  pose proof (template_ok k (relay =?s "")) as T.
  destruct (relay =?s "") eqn:E.
  - rewrite T. unfold render. rewrite compile_ok. cbn [app]. apply (exec_without_relay apply_esc).
  - rewrite T. unfold render. rewrite compile_ok. cbn [app]. apply (exec_with_relay apply_esc).
Qed.

(* ================================================================ reading the page back *)
Ltac scan_lit :=
  match goal with
  | |- context [srun (@pair sstate (list token) ?st ?tk) ?l] =>
      let s := fresh "s" in set (s := srun (st, tk) l); vm_compute in s; subst s
  end.
Ltac scan_fill := rewrite srun_dq_fill by assumption.

Lemma scan_with_relay k F1 F2 F3 :
  no_dq F1 = true -> no_dq F2 = true -> no_dq F3 = true ->
  scan_html (interleave (literals_of (compiled k false)) [F1; F2; F3]) = Some (post_page k F1 F2 (Some F3)).
Proof.
  intros H1 H2 H3. unfold scan_html.
  destruct k;
    match goal with |- context [literals_of (compiled ?kk false)] =>
      let l := eval vm_compute in (literals_of (compiled kk false)) in
      change (literals_of (compiled kk false)) with l end;
    cbn [interleave]; rewrite !srun_app;
    scan_lit; scan_fill; scan_lit; scan_fill; scan_lit; scan_fill; scan_lit; scan_lit;
    vm_compute; reflexivity.
Qed.

Lemma scan_without_relay k F1 F2 :
  no_dq F1 = true -> no_dq F2 = true ->
  scan_html (interleave (literals_of (compiled k true)) [F1; F2]) = Some (post_page k F1 F2 None).
Proof.
  intros H1 H2. unfold scan_html.
  destruct k;
    match goal with |- context [literals_of (compiled ?kk true)] =>
      let l := eval vm_compute in (literals_of (compiled kk true)) in
      change (literals_of (compiled kk true)) with l end;
    cbn [interleave]; rewrite !srun_app;
    scan_lit; scan_fill; scan_lit; scan_fill; scan_lit; scan_lit;
    vm_compute; reflexivity.
Qed.

(* ================================================================ the C16 theorems *)
Definition relay_fill (relay : string) : option string :=
  if relay =?s "" then None else Some (html_attr_escape relay).

(* the page every builder produces, for all inputs *)
Theorem post_body_page k cfg relay doc :
  exists out,
    build_post_body k cfg relay doc = Ok out /\
    out = interleave (template_literals k (relay =?s "")) (fills k cfg relay doc) /\
    Forall (fun f => html_no_structure f = true) (fills k cfg relay doc) /\
    scan_html out
    = Some (post_page k (html_url_attr_escape (endpoint k cfg)) (html_attr_escape (base64_encode doc)) (relay_fill relay)).
Proof.
  eexists. split; [apply build_post_body_shape|]. split; [reflexivity|]. split.
  - unfold fills. destruct (relay =?s ""); cbn [app]; repeat constructor;
      first [apply html_url_attr_escape_no_structure | apply html_attr_escape_no_structure].
  - rewrite literals_ok. unfold fills, relay_fill. destruct (relay =?s ""); cbn [app].
    + apply scan_without_relay; apply no_structure_no_dq;
        first [apply html_url_attr_escape_no_structure | apply html_attr_escape_no_structure].
    + apply scan_with_relay; apply no_structure_no_dq;
        first [apply html_url_attr_escape_no_structure | apply html_attr_escape_no_structure].
Qed.

Lemma page_one_form k a m r : List.length (filter (is_start "form") (post_page k a m r)) = 1%nat.
Proof. destruct k, r; reflexivity. Qed.

Lemma page_hidden_fields k a m r :
  hidden_fields (post_page k a m r)
  = (message_field k, m) :: match r with Some v => [("RelayState", v)] | None => [] end.
Proof. destruct k, r; reflexivity. Qed.

Lemma page_form_actions k a m r : form_actions (post_page k a m r) = [a].
Proof. destruct k, r; reflexivity. Qed.

Lemma page_shape_some k a m r a' m' r' :
  map token_shape (post_page k a m (Some r)) = map token_shape (post_page k a' m' (Some r')).
Proof. destruct k; reflexivity. Qed.
Lemma page_shape_none k a m a' m' :
  map token_shape (post_page k a m None) = map token_shape (post_page k a' m' None).
Proof. destruct k; reflexivity. Qed.

(* 1 *)
Theorem single_form_skeleton k cfg relay doc :
  exists out toks,
    build_post_body k cfg relay doc = Ok out /\ scan_html out = Some toks /\
    toks = post_page k (html_url_attr_escape (endpoint k cfg)) (html_attr_escape (base64_encode doc))
             (if relay =?s "" then None else Some (html_attr_escape relay)) /\
    List.length (filter (is_start "form") toks) = 1%nat.
Proof.
  destruct (post_body_page k cfg relay doc) as (out & B & _ & _ & S).
  eexists out, _. split; [exact B|]. split; [exact S|]. split; [reflexivity|]. apply page_one_form.
Qed.

(* 2 *)
Theorem relay_field_iff_nonempty k cfg relay doc :
  exists out toks,
    build_post_body k cfg relay doc = Ok out /\ scan_html out = Some toks /\
    hidden_fields toks
    = (message_field k, html_attr_escape (base64_encode doc))
      :: (if relay =?s "" then [] else [("RelayState", html_attr_escape relay)]).
Proof.
  destruct (post_body_page k cfg relay doc) as (out & B & _ & _ & S).
  eexists out, _. split; [exact B|]. split; [exact S|]. rewrite page_hidden_fields. unfold relay_fill.
  destruct (relay =?s ""); reflexivity.
Qed.

(* 3 *)
Theorem values_cannot_alter_structure k cfg relay doc :
  exists out toks,
    build_post_body k cfg relay doc = Ok out /\
    out = interleave (template_literals k (relay =?s "")) (fills k cfg relay doc) /\
    Forall (fun f => html_no_structure f = true) (fills k cfg relay doc) /\
    scan_html out = Some toks /\
    forall cfg' relay' doc', (relay' =?s "") = (relay =?s "") ->
      exists out' toks',
        build_post_body k cfg' relay' doc' = Ok out' /\ scan_html out' = Some toks' /\
        map token_shape toks' = map token_shape toks.
Proof.
  destruct (post_body_page k cfg relay doc) as (out & B & I & F & S).
  eexists out, _. split; [exact B|]. split; [exact I|]. split; [exact F|]. split; [exact S|].
  intros cfg' relay' doc' E.
  destruct (post_body_page k cfg' relay' doc') as (out' & B' & _ & _ & S').
  eexists out', _. split; [exact B'|]. split; [exact S'|]. unfold relay_fill. rewrite E.
  destruct (relay =?s ""); [apply page_shape_none | apply page_shape_some].
Qed.

(* 4 *)
Lemma b64_no_nul d : no_nul (base64_encode d) = true.
Proof.
  unfold no_nul. apply (str_all_impl b64_out_char); [|apply base64_charset].
  apply (byte_forall (fun c => implb (b64_out_char c) (negb (is_ch 0 c)))). vm_compute. reflexivity.
Qed.

Theorem fields_recovered k cfg relay doc :
  exists out toks v,
    build_post_body k cfg relay doc = Ok out /\ scan_html out = Some toks /\
    In (message_field k, v) (hidden_fields toks) /\
    base64_decode (html_unescape v) = Some doc /\
    (relay <> "" -> no_nul relay = true ->
     exists r, In ("RelayState", r) (hidden_fields toks) /\ html_unescape r = relay).
Proof.
  destruct (relay_field_iff_nonempty k cfg relay doc) as (out & toks & B & S & H).
  eexists out, toks, _. split; [exact B|]. split; [exact S|]. rewrite H. split; [left; reflexivity|]. split.
  - rewrite html_unescape_escape_no_nul by apply b64_no_nul. apply base64_decode_encode.
  - intros N Z. apply String.eqb_neq in N. rewrite N. eexists. split; [right; left; reflexivity|].
    apply html_unescape_escape_no_nul, Z.
Qed.

Lemma relay_nul_refuted :
  exists relay, relay <> "" /\ html_unescape (html_attr_escape relay) <> relay.
Proof. exists (B [0]%N). split; [discriminate|]. vm_compute. discriminate. Qed.

(* 5 *)
Lemma url_char_no_nul : forall c, implb (url_char c) (negb (is_ch 0 c)) = true.
Proof. apply (byte_forall (fun c => implb (url_char c) (negb (is_ch 0 c)))). vm_compute. reflexivity. Qed.

Lemma url_normalize_no_nul s : no_nul (url_normalize s) = true.
Proof. unfold no_nul. apply (str_all_impl _ _ url_char_no_nul), url_normalize_charset. Qed.

Lemma url_all_kept_normalize s : url_all_kept s = true -> url_normalize s = s.
Proof.
  induction s as [|c s IH]; [reflexivity|]. cbn [url_all_kept url_normalize]. intros H.
  apply andb_true_iff in H as [H1 H2]. rewrite H1, (IH H2). reflexivity.
Qed.

Theorem action_is_configured_endpoint k cfg relay doc :
  exists out toks a,
    build_post_body k cfg relay doc = Ok out /\ scan_html out = Some toks /\
    form_actions toks = [a] /\
    (is_safe_url (endpoint k cfg) = true ->
       a = html_attr_escape (url_normalize (endpoint k cfg)) /\
       html_unescape a = url_normalize (endpoint k cfg) /\
       (url_all_kept (endpoint k cfg) = true -> html_unescape a = endpoint k cfg)) /\
    (is_safe_url (endpoint k cfg) = false -> a = "#ZgotmplZ").
Proof.
  destruct (post_body_page k cfg relay doc) as (out & B & _ & _ & S).
  eexists out, _, _. split; [exact B|]. split; [exact S|]. split; [apply page_form_actions|].
  unfold html_url_attr_escape, url_filter. split.
  - intros Safe. rewrite Safe. split; [reflexivity|].
    rewrite html_unescape_escape_no_nul by apply url_normalize_no_nul. split; [reflexivity|].
    intros K. apply url_all_kept_normalize, K.
  - intros Unsafe. rewrite Unsafe. vm_compute. reflexivity.
Qed.

(* 6. the only base64 character the attribute escaper rewrites is '+' *)
Definition plus_only (c : ascii) : string := if is_ch 43 c then "&#43;" else String c EmptyString.

Lemma b64_byte_plus_only : forall c, implb (b64_out_char c) (html_attr_byte c =?s plus_only c) = true.
Proof. apply (byte_forall (fun c => implb (b64_out_char c) (html_attr_byte c =?s plus_only c))). vm_compute. reflexivity. Qed.

Theorem base64_only_plus_rewritten d :
  html_attr_escape (base64_encode d) = concat_map plus_only (base64_encode d)
  /\ html_unescape (html_attr_escape (base64_encode d)) = base64_encode d.
Proof.
  split; [|apply html_unescape_escape_no_nul, b64_no_nul].
  rewrite html_attr_escape_bytewise. pose proof (base64_charset d) as H.
  induction (base64_encode d) as [|c s IH]; [reflexivity|]. cbn [str_all] in H. apply andb_true_iff in H as [H1 H2].
  cbn [concat_map]. rewrite (IH H2). pose proof (b64_byte_plus_only c) as P. rewrite H1 in P. cbn [implb] in P.
  apply String.eqb_eq in P. rewrite P. reflexivity.
Qed.

(* non-vacuity: a relay state made of markup, an endpoint with a query, a document *)
Example c16_nonvacuous :
  build_post_body PAuthn {| pc_sso_url := "https://idp.example.com/sso?a=1&b=2"; pc_slo_url := "https://idp.example.com/slo" |}
                  """><script>alert(1)</script>" "<a/>"
  = Ok "<form method=""POST"" action=""https://idp.example.com/sso?a=1&amp;b=2"" id=""SAMLRequestForm""><input type=""hidden"" name=""SAMLRequest"" value=""PGEvPg=="" /><input type=""hidden"" name=""RelayState"" value=""&#34;&gt;&lt;script&gt;alert(1)&lt;/script&gt;"" /><input id=""SAMLSubmitButton"" type=""submit"" value=""Submit"" /></form><script>document.getElementById('SAMLSubmitButton').style.visibility=""hidden"";document.getElementById('SAMLRequestForm').submit();</script>".
Proof. vm_compute. reflexivity. Qed.
