(* Escape.v — executable models of the byte-level escaping / encoding functions the OUTBOUND
   code of gosaml2 relies on.  Go strings are Coq [string]s (lists of bytes).

   Modelled (go1.24.0 std, etree v1.5.0), by reading the sources:
     net/url            QueryEscape, QueryUnescape, Values.Encode
     etree helpers.go   escapeString (three modes), with unicode/utf8.DecodeRuneInString
     html/template      attrEscaper/htmlReplacer(htmlReplacementTable, badRunes=true),
                        urlFilter/isSafeURL (strings.EqualFold against http/https/mailto),
                        urlNormalizer/processURLOnto(norm=true)
     encoding/base64    StdEncoding.EncodeToString / DecodeString
   plus two independent decoders (xml_unescape, html_unescape) used to state faithfulness.
   No proofs here (see EscapeProofs.v); correspondence with Go is checked by
   /verif/harness/cmd/escdiff. *)
From V Require Import Base.
Local Open Scope string_scope.   (* ++ below is string append *)

(* ---------------------------------------------------------------- bytes *)
Definition code (c : ascii) : N := N_of_ascii c.
Definition byte (n : N) : ascii := ascii_of_N n.
Definition in_rng (lo hi : N) (c : ascii) : bool := ((lo <=? code c) && (code c <=? hi))%N.
Definition is_ch (n : N) (c : ascii) : bool := (code c =? n)%N.

Fixpoint str_all (P : ascii -> bool) (s : string) : bool :=
  match s with
  | EmptyString => true
  | String c r => P c && str_all P r
  end.

Fixpoint concat_map (g : ascii -> string) (s : string) : string :=
  match s with
  | EmptyString => EmptyString
  | String c r => g c ++ concat_map g r
  end.

Definition is_alnum (c : ascii) : bool := in_rng 97 122 c || in_rng 65 90 c || in_rng 48 57 c.
(* net/url ishex, html/template isHex *)
Definition is_hex (c : ascii) : bool := in_rng 48 57 c || in_rng 97 102 c || in_rng 65 70 c.
(* net/url unhex *)
Definition unhex (c : ascii) : N :=
  if in_rng 48 57 c then (code c - 48)%N
  else if in_rng 97 102 c then (code c - 87)%N
  else if in_rng 65 70 c then (code c - 55)%N
  else 0%N.
(* "0123456789ABCDEF"[n] / "0123456789abcdef"[n] for n < 16 *)
Definition hex_digit (upper : bool) (n : N) : ascii :=
  if (n <? 10)%N then byte (48 + n) else byte ((if upper then 55 else 87) + n).

Definition pct : ascii := byte 37.   (* '%' *)

(* ================================================================ 1. net/url *)
(* shouldEscape(c, encodeQueryComponent): alnum and - _ . ~ are kept, everything else escaped. *)
Definition should_escape_query (c : ascii) : bool :=
  negb (is_alnum c || is_ch 45 c || is_ch 95 c || is_ch 46 c || is_ch 126 c).

Definition qe_byte (c : ascii) : string :=
  if is_ch 32 c then String (byte 43) EmptyString
  else if should_escape_query c then
    String pct (String (hex_digit true (code c / 16)) (String (hex_digit true (code c mod 16)) EmptyString))
  else String c EmptyString.

Definition query_escape (s : string) : string := concat_map qe_byte s.

(* unescape(s, encodeQueryComponent).  Go validates every '%' in a first pass and builds the
   result in a second one; a single pass that propagates failure is the same function. *)
Fixpoint query_unescape (s : string) : option string :=
  match s with
  | EmptyString => Some EmptyString
  | String c r =>
      if is_ch 37 c then
        match r with
        | String h1 (String h2 r') =>
            if is_hex h1 && is_hex h2
            then option_map (String (byte (unhex h1 * 16 + unhex h2))) (query_unescape r')
            else None
        | _ => None
        end
      else if is_ch 43 c then option_map (String (byte 32)) (query_unescape r)
      else option_map (String c) (query_unescape r)
  end.

(* ---- url.Values.Encode *)
Fixpoint str_leb (a b : string) : bool :=
  match a, b with
  | EmptyString, _ => true
  | String _ _, EmptyString => false
  | String x a', String y b' =>
      if (code x <? code y)%N then true
      else if (code y <? code x)%N then false
      else str_leb a' b'
  end.

Fixpoint insert_kv (kv : string * list string) (l : list (string * list string)) :=
  match l with
  | [] => [kv]
  | h :: t => if str_leb (fst kv) (fst h) then kv :: l else h :: insert_kv kv t
  end.
Definition sort_kv (l : list (string * list string)) := fold_right insert_kv [] l.

Definition encode_key (kv : string * list string) : list string :=
  map (fun v => query_escape (fst kv) ++ String (byte 61) (query_escape v)) (snd kv).

Definition values_encode (m : list (string * list string)) : string :=
  String.concat (String (byte 38) EmptyString) (flat_map encode_key (sort_kv m)).

(* ================================================================ UTF-8 *)
Definition RE : N := 65533.                                  (* utf8.RuneError *)
Definition repl_char : string := Eval vm_compute in B [239; 191; 189]%N.   (* "�" *)

(* utf8.DecodeRuneInString: (rune, width).  The [first]/[acceptRanges] tables are expanded
   into the comparisons below: 00-7F ascii; 80-C1, F5-FF invalid; C2-DF two bytes;
   E0 (second byte A0-BF), E1-EC, ED (second byte 80-9F), EE-EF three bytes;
   F0 (90-BF), F1-F3, F4 (80-8F) four bytes.  A too short input or a bad continuation byte
   gives (RuneError, 1).  The rune is assembled with + and mod instead of | and & (the bit
   fields are disjoint, so the value is the same). *)
Definition decode_rune (s : string) : N * nat :=
  match s with
  | EmptyString => (RE, 0%nat)
  | String c0 r =>
      let b0 := code c0 in
      if (b0 <? 128)%N then (b0, 1%nat)
      else if (b0 <? 194)%N then (RE, 1%nat)
      else if (b0 <? 224)%N then
        match r with
        | String c1 _ =>
            if in_rng 128 191 c1 then (((b0 mod 32) * 64 + code c1 mod 64)%N, 2%nat) else (RE, 1%nat)
        | _ => (RE, 1%nat)
        end
      else if (b0 <? 240)%N then
        let lo := if (b0 =? 224)%N then 160%N else 128%N in
        let hi := if (b0 =? 237)%N then 159%N else 191%N in
        match r with
        | String c1 (String c2 _) =>
            if in_rng lo hi c1 then
              if in_rng 128 191 c2 then
                (((b0 mod 16) * 4096 + (code c1 mod 64) * 64 + code c2 mod 64)%N, 3%nat)
              else (RE, 1%nat)
            else (RE, 1%nat)
        | _ => (RE, 1%nat)
        end
      else if (b0 <? 245)%N then
        let lo := if (b0 =? 240)%N then 144%N else 128%N in
        let hi := if (b0 =? 244)%N then 143%N else 191%N in
        match r with
        | String c1 (String c2 (String c3 _)) =>
            if in_rng lo hi c1 then
              if in_rng 128 191 c2 then
                if in_rng 128 191 c3 then
                  (((b0 mod 8) * 262144 + (code c1 mod 64) * 4096 + (code c2 mod 64) * 64 + code c3 mod 64)%N, 4%nat)
                else (RE, 1%nat)
              else (RE, 1%nat)
            else (RE, 1%nat)
        | _ => (RE, 1%nat)
        end
      else (RE, 1%nat)
  end.

(* utf8.EncodeRune / utf8.AppendRune (surrogates and > 0x10FFFF give U+FFFD) *)
Definition utf8_encode (n : N) : string :=
  if (n <? 128)%N then String (byte n) EmptyString
  else if (n <? 2048)%N then String (byte (192 + n / 64)) (String (byte (128 + n mod 64)) EmptyString)
  else if ((55296 <=? n) && (n <=? 57343))%N then repl_char
  else if (n <? 65536)%N then
    String (byte (224 + n / 4096)) (String (byte (128 + (n / 64) mod 64)) (String (byte (128 + n mod 64)) EmptyString))
  else if (n <=? 1114111)%N then
    String (byte (240 + n / 262144)) (String (byte (128 + (n / 4096) mod 64))
      (String (byte (128 + (n / 64) mod 64)) (String (byte (128 + n mod 64)) EmptyString)))
  else repl_char.

(* The loop shared by etree.escapeString and html/template.htmlReplacer:
     for i < len(s) { r, w := DecodeRuneInString(s[i:]); i += w;
                      if f r w = Some esc { write esc instead of the w bytes } else { copy the w bytes } }
   written as a structural recursion over the bytes: at a rune boundary ([skip] = 0) the rune
   is decoded from the current suffix; the following w-1 bytes are then copied ([copy] = true)
   or dropped ([copy] = false) without being looked at. *)
Fixpoint rune_map (f : N -> nat -> option string) (skip : nat) (copy : bool) (s : string) : string :=
  match s with
  | EmptyString => EmptyString
  | String c r =>
      match skip with
      | S k => if copy then String c (rune_map f k copy r) else rune_map f k copy r
      | O =>
          let '(rn, w) := decode_rune s in
          match f rn w with
          | Some e => e ++ rune_map f (w - 1) false r
          | None => String c (rune_map f (w - 1) true r)
          end
      end
  end.

(* "every rune of s satisfies ok": same traversal. *)
Fixpoint valid_go (ok : N -> nat -> bool) (skip : nat) (s : string) : bool :=
  match s with
  | EmptyString => true
  | String c r =>
      match skip with
      | S k => valid_go ok k r
      | O => let '(rn, w) := decode_rune s in ok rn w && valid_go ok (w - 1) r
      end
  end.

Definition not_decode_error (rn : N) (w : nat) : bool := negb ((rn =? RE)%N && Nat.eqb w 1).

(* utf8.ValidString *)
Definition valid_utf8 (s : string) : bool := valid_go not_decode_error 0 s.

(* ================================================================ 3. etree escapeString *)
Inductive escape_mode := Normal | CanonText | CanonAttr.

(* etree isInCharacterRange *)
Definition in_char_range (r : N) : bool :=
  ((r =? 9) || (r =? 10) || (r =? 13) || ((32 <=? r) && (r <=? 55295))
   || ((57344 <=? r) && (r <=? 65533)) || ((65536 <=? r) && (r <=? 1114111)))%N.

(* the switch in escapeString: Some esc = replace the rune by esc, None = "continue" *)
Definition etree_esc (m : escape_mode) (r : N) (w : nat) : option string :=
  if (r =? 38)%N then Some "&amp;"
  else if (r =? 60)%N then Some "&lt;"
  else if (r =? 62)%N then match m with CanonAttr => None | _ => Some "&gt;" end
  else if (r =? 39)%N then match m with Normal => Some "&apos;" | _ => None end
  else if (r =? 34)%N then match m with CanonText => None | _ => Some "&quot;" end
  else if (r =? 9)%N then match m with CanonAttr => Some "&#x9;" | _ => None end
  else if (r =? 10)%N then match m with CanonAttr => Some "&#xA;" | _ => None end
  else if (r =? 13)%N then match m with Normal => None | _ => Some "&#xD;" end
  else if negb (in_char_range r) || ((r =? RE)%N && Nat.eqb w 1) then Some repl_char
  else None.

Definition etree_escape (m : escape_mode) (s : string) : string := rune_map (etree_esc m) 0 true s.

(* well-formed UTF-8 whose characters are all in the XML Char range *)
Definition xml_rune_ok (rn : N) (w : nat) : bool := not_decode_error rn w && in_char_range rn.
Definition valid_xml_text (s : string) : bool := valid_go xml_rune_ok 0 s.

(* ================================================================ 4. html/template attrEscaper *)
(* htmlReplacementTable (len = '>'+1 = 63); runes >= 63 are left alone (badRunes = true) *)
Definition html_repl (r : N) : option string :=
  if (r <? 63)%N then
    if (r =? 0)%N then Some repl_char
    else if (r =? 34)%N then Some "&#34;"
    else if (r =? 38)%N then Some "&amp;"
    else if (r =? 39)%N then Some "&#39;"
    else if (r =? 43)%N then Some "&#43;"
    else if (r =? 60)%N then Some "&lt;"
    else if (r =? 62)%N then Some "&gt;"
    else None
  else None.

Definition html_attr_escape (s : string) : string := rune_map (fun r _ => html_repl r) 0 true s.

(* the per-byte function html_attr_escape is proved equal to (EscapeProofs.html_attr_escape_bytewise) *)
Definition html_attr_byte (c : ascii) : string :=
  match html_repl (code c) with Some e => e | None => String c EmptyString end.

(* ================================================================ 5. html/template URL attribute *)
Fixpoint cut_colon (s : string) : option string :=      (* strings.Cut(s, ":") : before, found *)
  match s with
  | EmptyString => None
  | String c r => if is_ch 58 c then Some EmptyString else option_map (String c) (cut_colon r)
  end.

(* strings.EqualFold(s, t) for t made of lower-case ASCII letters.  Besides the two ASCII
   cases the only runes whose simple-fold orbit contains an ASCII letter are U+017F (C5 BF,
   with s/S) and U+212A (E2 84 AA, with k/K). *)
Fixpoint fold_eq (s t : string) : bool :=
  match t with
  | EmptyString => match s with EmptyString => true | _ => false end
  | String tc t' =>
      match s with
      | EmptyString => false
      | String sc s' =>
          if is_ch (code tc) sc || (in_rng 97 122 tc && is_ch (code tc - 32) sc) then fold_eq s' t'
          else if is_ch 115 tc && is_ch 197 sc then
            match s' with
            | String c1 s'' => if is_ch 191 c1 then fold_eq s'' t' else false
            | _ => false
            end
          else if is_ch 107 tc && is_ch 226 sc then
            match s' with
            | String c1 (String c2 s'') => if is_ch 132 c1 && is_ch 170 c2 then fold_eq s'' t' else false
            | _ => false
            end
          else false
      end
  end.

Definition is_safe_url (s : string) : bool :=
  match cut_colon s with
  | Some proto =>
      if negb (str_all (fun c => negb (is_ch 47 c)) proto) then true
      else fold_eq proto "http" || fold_eq proto "https" || fold_eq proto "mailto"
  | None => true
  end.

Definition url_filter (s : string) : string := if is_safe_url s then s else "#ZgotmplZ".

(* processURLOnto(s, norm = true): bytes kept as they are *)
Definition url_norm_keep (c : ascii) (r : string) : bool :=
  is_ch 33 c || is_ch 35 c || is_ch 36 c || is_ch 38 c || is_ch 42 c || is_ch 43 c || is_ch 44 c
  || is_ch 47 c || is_ch 58 c || is_ch 59 c || is_ch 61 c || is_ch 63 c || is_ch 64 c
  || is_ch 91 c || is_ch 93 c
  || is_ch 45 c || is_ch 46 c || is_ch 95 c || is_ch 126 c
  || (is_ch 37 c && match r with String h1 (String h2 _) => is_hex h1 && is_hex h2 | _ => false end)
  || is_alnum c.

Fixpoint url_normalize (s : string) : string :=
  match s with
  | EmptyString => EmptyString
  | String c r =>
      if url_norm_keep c r then String c (url_normalize r)
      else String pct (String (hex_digit false (code c / 16)) (String (hex_digit false (code c mod 16)) (url_normalize r)))
  end.

Definition html_url_attr_escape (s : string) : string :=
  html_attr_escape (url_normalize (url_filter s)).

(* ================================================================ 6. encoding/base64 (StdEncoding) *)
(* Sextets are represented as bytes whose two top bits are clear; splitting three bytes into
   four sextets and joining them back is pure bit re-wiring ([Ascii b0 .. b7], b0 = LSB). *)
Definition b64_alphabet : string := "ABCDEFGHIJKLMNOPQRSTUVWXYZabcdefghijklmnopqrstuvwxyz0123456789+/".
Definition b64_char (x : ascii) : ascii :=
  match String.get (N.to_nat (code x)) b64_alphabet with Some c => c | None => byte 61 end.
Definition b64_val (c : ascii) : option ascii :=          (* decodeMap *)
  if in_rng 65 90 c then Some (byte (code c - 65))
  else if in_rng 97 122 c then Some (byte (code c - 71))
  else if in_rng 48 57 c then Some (byte (code c + 4))
  else if is_ch 43 c then Some (byte 62)
  else if is_ch 47 c then Some (byte 63)
  else None.

Definition sx0 (a : ascii) : ascii :=                      (* a >> 2 *)
  match a with Ascii _ _ a2 a3 a4 a5 a6 a7 => Ascii a2 a3 a4 a5 a6 a7 false false end.
Definition sx1 (a b : ascii) : ascii :=                    (* (a & 3) << 4 | b >> 4 *)
  match a, b with Ascii a0 a1 _ _ _ _ _ _, Ascii _ _ _ _ b4 b5 b6 b7 => Ascii b4 b5 b6 b7 a0 a1 false false end.
Definition sx2 (b c : ascii) : ascii :=                    (* (b & 15) << 2 | c >> 6 *)
  match b, c with Ascii b0 b1 b2 b3 _ _ _ _, Ascii _ _ _ _ _ _ c6 c7 => Ascii c6 c7 b0 b1 b2 b3 false false end.
Definition sx3 (c : ascii) : ascii :=                      (* c & 63 *)
  match c with Ascii c0 c1 c2 c3 c4 c5 _ _ => Ascii c0 c1 c2 c3 c4 c5 false false end.

Definition jn0 (x y : ascii) : ascii :=                    (* x << 2 | y >> 4 *)
  match x, y with Ascii x0 x1 x2 x3 x4 x5 _ _, Ascii _ _ _ _ y4 y5 _ _ => Ascii y4 y5 x0 x1 x2 x3 x4 x5 end.
Definition jn1 (y z : ascii) : ascii :=                    (* (y & 15) << 4 | z >> 2 *)
  match y, z with Ascii y0 y1 y2 y3 _ _ _ _, Ascii _ _ z2 z3 z4 z5 _ _ => Ascii z2 z3 z4 z5 y0 y1 y2 y3 end.
Definition jn2 (z w : ascii) : ascii :=                    (* (z & 3) << 6 | w *)
  match z, w with Ascii z0 z1 _ _ _ _ _ _, Ascii w0 w1 w2 w3 w4 w5 _ _ => Ascii w0 w1 w2 w3 w4 w5 z0 z1 end.

Definition pad : ascii := byte 61.

Fixpoint base64_encode (s : string) : string :=
  match s with
  | EmptyString => EmptyString
  | String a EmptyString =>
      String (b64_char (sx0 a)) (String (b64_char (sx1 a zero)) (String pad (String pad EmptyString)))
  | String a (String b EmptyString) =>
      String (b64_char (sx0 a)) (String (b64_char (sx1 a b)) (String (b64_char (sx2 b zero)) (String pad EmptyString)))
  | String a (String b (String c r)) =>
      String (b64_char (sx0 a)) (String (b64_char (sx1 a b)) (String (b64_char (sx2 b c))
        (String (b64_char (sx3 c)) (base64_encode r))))
  end.

(* Decode = repeated decodeQuantum (the assemble32/assemble64 fast paths compute the same).
   [b64st] = sextets of the current quantum read so far.  '\r' and '\n' are skipped anywhere. *)
Inductive b64st := Q0 | Q1 (x : ascii) | Q2 (x y : ascii) | Q3 (x y z : ascii).
Definition is_nl (c : ascii) : bool := is_ch 10 c || is_ch 13 c.
Fixpoint all_nl (s : string) : bool :=
  match s with EmptyString => true | String c r => is_nl c && all_nl r end.
(* after the first '=' of a two-sextet quantum: newlines, a second '=', newlines, end *)
Fixpoint pad2_tail (s : string) : bool :=
  match s with
  | EmptyString => false
  | String c r => if is_nl c then pad2_tail r else if is_ch 61 c then all_nl r else false
  end.

Fixpoint b64_dec (st : b64st) (s : string) : option string :=
  match s with
  | EmptyString => match st with Q0 => Some EmptyString | _ => None end
  | String c r =>
      match b64_val c with
      | Some v =>
          match st with
          | Q0 => b64_dec (Q1 v) r
          | Q1 x => b64_dec (Q2 x v) r
          | Q2 x y => b64_dec (Q3 x y v) r
          | Q3 x y z =>
              option_map (fun t => String (jn0 x y) (String (jn1 y z) (String (jn2 z v) t))) (b64_dec Q0 r)
          end
      | None =>
          if is_nl c then b64_dec st r
          else if is_ch 61 c then
            match st with
            | Q2 x y => if pad2_tail r then Some (String (jn0 x y) EmptyString) else None
            | Q3 x y z => if all_nl r then Some (String (jn0 x y) (String (jn1 y z) EmptyString)) else None
            | _ => None
            end
          else None
      end
  end.

Definition base64_decode (s : string) : option string := b64_dec Q0 s.

(* ================================================================ 7. independent decoders *)
(* Generic character-reference expander: [ref s] looks at a suffix starting with '&' and returns
   the replacement text and the length of the reference; anything else is copied. *)
Fixpoint unesc_go (ref : string -> option (string * nat)) (skip : nat) (s : string) : string :=
  match s with
  | EmptyString => EmptyString
  | String c r =>
      match skip with
      | S k => unesc_go ref k r
      | O =>
          if is_ch 38 c then
            match ref s with
            | Some (t, len) => t ++ unesc_go ref (len - 1) r
            | None => String c (unesc_go ref 0 r)
            end
          else String c (unesc_go ref 0 r)
      end
  end.

(* digits up to ';' : value and number of digits (at least one digit) *)
Fixpoint parse_hex (acc : N) (cnt : nat) (s : string) : option (N * nat) :=
  match s with
  | EmptyString => None
  | String c r =>
      if is_ch 59 c then (if Nat.eqb cnt 0 then None else Some (acc, cnt))
      else if is_hex c then parse_hex (acc * 16 + unhex c) (S cnt) r
      else None
  end.
Fixpoint parse_dec (acc : N) (cnt : nat) (s : string) : option (N * nat) :=
  match s with
  | EmptyString => None
  | String c r =>
      if is_ch 59 c then (if Nat.eqb cnt 0 then None else Some (acc, cnt))
      else if in_rng 48 57 c then parse_dec (acc * 10 + (code c - 48)) (S cnt) r
      else None
  end.

(* [starts_with p s]: p is a prefix of s (recursion on p, so that it computes on p ++ variable) *)
Fixpoint starts_with (p s : string) : bool :=
  match p with
  | EmptyString => true
  | String a p' => match s with String b s' => Ascii.eqb a b && starts_with p' s' | EmptyString => false end
  end.

Definition named_ref (s : string) : option (string * nat) :=
  if starts_with "&amp;" s then Some ("&", 5%nat)
  else if starts_with "&lt;" s then Some ("<", 4%nat)
  else if starts_with "&gt;" s then Some (">", 4%nat)
  else if starts_with "&apos;" s then Some ("'", 6%nat)
  else if starts_with "&quot;" s then Some (String (byte 34) EmptyString, 6%nat)
  else None.

(* XML: the five predefined entities and &#xH..H; *)
Definition xml_ref (s : string) : option (string * nat) :=
  match named_ref s with
  | Some x => Some x
  | None =>
      match s with
      | String _ (String h (String x r)) =>
          if is_ch 35 h && is_ch 120 x then
            match parse_hex 0 0 r with
            | Some (n, k) => Some (utf8_encode n, (k + 4)%nat)
            | None => None
            end
          else None
      | _ => None
      end
  end.
Definition xml_unescape (s : string) : string := unesc_go xml_ref 0 s.

(* HTML attribute values: the named five and decimal &#D..D; (0 -> U+FFFD as in the HTML spec) *)
Definition html_ref (s : string) : option (string * nat) :=
  match named_ref s with
  | Some x => Some x
  | None =>
      match s with
      | String _ (String h r) =>
          if is_ch 35 h then
            match parse_dec 0 0 r with
            | Some (n, k) => Some ((if (n =? 0)%N then repl_char else utf8_encode n), (k + 3)%nat)
            | None => None
            end
          else None
      | _ => None
      end
  end.
Definition html_unescape (s : string) : string := unesc_go html_ref 0 s.

(* XML end-of-line handling (XML 1.0 2.11, and encoding/xml): in the raw document text,
   before references are expanded, CR LF and a lone CR become LF. *)
Fixpoint xml_eol_normalize (s : string) : string :=
  match s with
  | EmptyString => EmptyString
  | String c r =>
      if is_ch 13 c then
        String (byte 10)
          match r with
          | String c1 r' => if is_ch 10 c1 then xml_eol_normalize r' else xml_eol_normalize r
          | EmptyString => EmptyString
          end
      else String c (xml_eol_normalize r)
  end.

(* premises of the round-trip theorems *)
Definition no_nul (s : string) : bool := str_all (fun c => negb (is_ch 0 c)) s.
Definition no_nul_valid_utf8 (s : string) : bool := no_nul s && valid_utf8 s.

(* ================================================================ correspondence entry point *)
(* values_encode input: entries separated by byte 0x1E, fields (key, values...) by byte 0x1F *)
Fixpoint split_on (sep : N) (cur : string) (s : string) : list string :=
  match s with
  | EmptyString => [cur]
  | String c r => if is_ch sep c then cur :: split_on sep EmptyString r else split_on sep (cur ++ String c EmptyString) r
  end.
Definition parse_values (s : string) : list (string * list string) :=
  match s with
  | EmptyString => []
  | _ => map (fun e => match split_on 31 EmptyString e with k :: vs => (k, vs) | [] => (EmptyString, []) end)
             (split_on 30 EmptyString s)
  end.

Definition run_case (fn inp : string) : val :=
  if fn =?s "query_escape" then VS (query_escape inp)
  else if fn =?s "query_unescape" then opt_val VS (query_unescape inp)
  else if fn =?s "values_encode" then VS (values_encode (parse_values inp))
  else if fn =?s "etree_normal" then VS (etree_escape Normal inp)
  else if fn =?s "etree_ctext" then VS (etree_escape CanonText inp)
  else if fn =?s "etree_cattr" then VS (etree_escape CanonAttr inp)
  else if fn =?s "html_attr" then VS (html_attr_escape inp)
  else if fn =?s "html_url_attr" then VS (html_url_attr_escape inp)
  else if fn =?s "base64_encode" then VS (base64_encode inp)
  else if fn =?s "base64_decode" then opt_val VS (base64_decode inp)
  else if fn =?s "valid_utf8" then VB (valid_utf8 inp)
  else if fn =?s "valid_xml_text" then VB (valid_xml_text inp)
  else if fn =?s "html_roundtrip" then VS (html_unescape (html_attr_escape inp))
  else if fn =?s "xml_roundtrip" then VS (xml_unescape (xml_eol_normalize (etree_escape Normal inp)))
  else if fn =?s "xml_attr_roundtrip" then VS (xml_unescape (xml_eol_normalize (etree_escape CanonAttr inp)))
  else VC "unknown-function" [VS fn].
