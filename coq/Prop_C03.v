(* Prop_C03.v — property C03: acceptance implies every SSO profile check passed, for every assertion;
   a violating message is rejected through the typed error naming a violated element/attribute.
   (The statements that every decode PATH runs this validation are in the C03 path theorems over the
   tree-level model, Prop_C03 section "paths", once Response.v is part of the build.) *)
From V Require Import Base Time Xml Ns Types Profile Decode Response P_Profile P_C03 P_Ns P_Response.

(* complete characterisation of acceptance by the declarative profile predicate *)
Theorem C03_validate_accept_iff : forall cfg now r,
  validate cfg now r = Ok tt <-> ProfileOK cfg now r.
Proof. exact validate_ok_iff. Qed.
Print Assumptions C03_validate_accept_iff.

(* every assertion, whatever its position, passed every per-assertion check *)
Theorem C03_every_assertion_checked : forall cfg now r,
  validate cfg now r = Ok tt -> forall a, In a (r_assertions r) -> AssertionOK cfg now a.
Proof. exact every_assertion_checked. Qed.
Print Assumptions C03_every_assertion_checked.

(* the typed error names an element / attribute that really violates its check *)
Theorem C03_error_names_a_violated_check : forall cfg now r e,
  validate cfg now r = Err e -> Violates cfg now r e.
Proof. exact validate_err_violates. Qed.
Print Assumptions C03_error_names_a_violated_check.

(* any single violation, at response level or in an assertion at any position, rejects *)
Theorem C03_any_violation_rejects : forall cfg now r e,
  Violates cfg now r e -> exists e', validate cfg now r = Err e'.
Proof. exact any_violation_rejects. Qed.
Print Assumptions C03_any_violation_rejects.

Theorem C03_offending_assertion_any_position : forall cfg now r pre x post e,
  r_assertions r = pre ++ x :: post -> ViolatesA cfg now x e -> exists e', validate cfg now r = Err e'.
Proof. exact offending_assertion_any_position. Qed.
Print Assumptions C03_offending_assertion_any_position.

(* the verdict depends on Destination, Version, Status, Issuer and the SET of assertions — on nothing else of the
   response (not the order or multiplicity of assertions, not ID / InResponseTo / IssueInstant / flags) *)
Theorem C03_acceptance_depends_on_assertion_set_only : forall cfg now r r',
  r_destination r = r_destination r' -> r_version r = r_version r' ->
  r_status r = r_status r' -> r_issuer r = r_issuer r' ->
  (forall a, In a (r_assertions r) <-> In a (r_assertions r')) ->
  (validate cfg now r = Ok tt <-> validate cfg now r' = Ok tt).
Proof. exact acceptance_depends_on_assertion_set_only. Qed.
Print Assumptions C03_acceptance_depends_on_assertion_set_only.

Theorem C03_acceptance_invariant_under_permutation : forall cfg now r l,
  Permutation.Permutation (r_assertions r) l ->
  (validate cfg now r = Ok tt <->
   validate cfg now {| r_id := r_id r; r_in_response_to := r_in_response_to r; r_destination := r_destination r;
                       r_version := r_version r; r_issue_instant := r_issue_instant r; r_status := r_status r;
                       r_issuer := r_issuer r; r_assertions := l; r_encrypted_count := r_encrypted_count r;
                       r_signature_validated := r_signature_validated r |} = Ok tt).
Proof. exact acceptance_invariant_under_permutation. Qed.
Print Assumptions C03_acceptance_invariant_under_permutation.

(* when the response-level checks pass, the error is that of the FIRST offending assertion *)
Theorem C03_first_failing_assertion_decides : forall cfg now r e,
  validate cfg now r = Err e ->
  AttrsOK (cfg_acs_url cfg) (r_destination r) (r_version r) -> r_assertions r <> [] ->
  IssuerOK cfg (r_issuer r) -> StatusOK (r_status r) ->
  exists pre x post, r_assertions r = pre ++ x :: post /\ Forall (AssertionOK cfg now) pre /\ ViolatesA cfg now x e.
Proof. exact first_failing_assertion_decides. Qed.
Print Assumptions C03_first_failing_assertion_decides.

(* ---- paths: every decode path of ValidateEncodedResponse (skip, signed Response, unsigned Response with signed
   assertions) ends with this validation, for every tree and every oracle behaviour ---- *)
Theorem C03_every_decode_path_validates : forall dsig decrypt cfg now root r,
  validate_response_tree dsig decrypt cfg now root = Ok r -> validate cfg now r = Ok tt.
Proof. exact every_path_validates. Qed.
Print Assumptions C03_every_decode_path_validates.

Theorem C03_accepted_response_satisfies_profile : forall dsig decrypt cfg now root r,
  validate_response_tree dsig decrypt cfg now root = Ok r -> ProfileOK cfg now r.
Proof. intros dsig decrypt cfg now root r H. apply validate_ok_iff. eapply every_path_validates; exact H. Qed.
Print Assumptions C03_accepted_response_satisfies_profile.

(* RetrieveAssertionInfo reports a failed validation through ErrVerification wrapping the typed cause *)
Theorem C03_retrieve_info_wraps_validation_error : forall dsig decrypt cfg now root e,
  validate_response_tree dsig decrypt cfg now root = Err e ->
  retrieve_assertion_info_tree dsig decrypt cfg now root = Err (EVerification e).
Proof. exact retrieve_info_wraps_validation_error. Qed.
Print Assumptions C03_retrieve_info_wraps_validation_error.

(* ---- tie to the source text: the bodies of Validate / validateResponseAttributes, translated from /repo on this run
   (GenFuncs.v), compute exactly the model function the theorems above are about, for every input, and never
   dereference nil ---- *)
From V Require Import GenPrelude GenFuncs P_GenFuncs.
Theorem C03_source_Validate_is_the_model : forall cfg now r,
  G_Validate cfg now r = PVal (validate cfg now r).
Proof. exact G_Validate_eq. Qed.
Print Assumptions C03_source_Validate_is_the_model.

Theorem C03_source_validateResponseAttributes_is_the_model : forall cfg now r,
  G_validateResponseAttributes cfg now r = PVal (validate_attrs (cfg_acs_url cfg) (r_destination r) (r_version r)).
Proof. exact G_validateResponseAttributes_eq. Qed.
Print Assumptions C03_source_validateResponseAttributes_is_the_model.

(* ---- the element / attribute names carried by the typed errors are the SAML-core names ---- *)
From V Require Import SamlSchema P_SamlSchema.
Theorem C03_error_vocabulary_is_saml_core : generated_vocabulary = saml_vocabulary.
Proof. exact vocabulary_is_saml. Qed.
Print Assumptions C03_error_vocabulary_is_saml_core.

(* source tie at the entry point: whatever the TRANSLATED ValidateEncodedResponse accepts satisfies every profile check *)
From V Require Import Keys GenPreludeD GenPreludeT GenTree P_GenTree P_GenTreeProps.
Theorem C03_source_accepted_response_satisfies_profile : forall parse dsig decrypt cfg now enc r,
  G_ValidateEncodedResponse parse dsig (decrypt_assertions decrypt) cfg now enc = PVal (Ok (Some r)) -> ProfileOK cfg now r.
Proof. exact source_accepted_response_satisfies_profile. Qed.
Print Assumptions C03_source_accepted_response_satisfies_profile.
